"""C04: readers and loose writers are never disturbed by a concurrent packer.

Lean side (lean/Dos/Conc.lean, Dos/Proofs/ConcProofs.lean): a transition system of writers, readers and a packer over the
Level-C disk; `reader_correct` / `reader_never_wrong` / `acked_available` for EVERY schedule in which the packer respects
the ordering discipline `pkAllowed`, and `packAll_disciplined` / `clean_disciplined`: the packer programs of the library
respect it under every interleaving.
Here (harness/sched.py): the real actors run as threads, one at a time, control changing hands at every file-system call
and SQL statement, under seeded random schedules and under every single-preemption placement of a reader / writer inside the
packer.  Checked: (1) the packer's interleaved I/O trace is the model's action list; (2) the discipline holds on the real
schedule (evaluated by the Lean model); (3) the final folder is the model's final state; (4) the direct oracle: every
reader result and every returned key is right."""
from __future__ import annotations

import io
import json
import multiprocessing as mp
import os

from .. import common, iotrace, sched, store
from ..content import Pool
from ..main import Report
from ..rawstate import Raw

QUICK = {'random': 60, 'preempt': 10, 'target': 112}
THOROUGH = {'random': 1200, 'preempt': 300, 'target': 900}


def build(rng, scratch):
    dos = common.import_repo()
    cfg = store.default_cfg(rng, 0.5)
    pool = Pool(rng, 10, 'tiny', level=cfg.level, fixed=[b''] if rng.random() < 0.4 else None)
    folder = os.path.join(scratch, 'c')
    c = dos.Container(folder)
    c.init_container(pack_size_target=cfg.target, loose_prefix_len=cfg.prefix_len, hash_type=cfg.hash_type,
                     compression_algorithm=f'zlib+{cfg.level}')
    pre = set()
    # some objects packed beforehand (compressed or not), some loose
    packed = rng.sample(range(len(pool)), rng.randint(0, 3))
    if packed:
        c.add_objects_to_pack([pool.contents[x] for x in packed], compress=rng.random() < 0.5)
        pre.update(packed)
    for x in rng.sample(range(len(pool)), rng.randint(1, 4)):
        c.add_object(pool.contents[x])
        pre.add(x)
    c.close()
    return dos, cfg, pool, folder, pre


def run_case(job):
    kind, idx = job
    # all placements of one targeted sweep share one scenario
    rng = common.rng_for('C04', kind, idx // 56 if kind == 'target' else idx)
    scratch = common.mkscratch('C04')
    res = {'kind': kind, 'idx': idx, 'failures': [], 'breaks': [], 'stats': {}, 'sample': None, 'events': 0}
    try:
        dos, cfg, pool, folder, pre = build(rng, scratch)
        key = lambda c: pool.key(c, cfg.hash_type)  # noqa: E731
        cid = lambda k: pool.cid_of_key(k, cfg.hash_type)  # noqa: E731
        nw, nr = rng.choice([1, 2, 2]), rng.choice([1, 2, 3])
        mode = rng.choice(['no', 'yes', 'auto'])
        clean_pp = rng.random() < 0.5
        wplans = [[rng.choice(sorted(pre)) if rng.random() < 0.3 else rng.randrange(len(pool)) for _ in range(rng.randint(1, 3))] for _ in range(nw)]
        rplans = []
        if kind == 'target':
            # fresh readers asking for everything that exists, placed at every I/O call of the packer in turn
            nr = 2
            everything = sorted(pre)
            rplans = [{'style': rng.choice(['single', 'seek']), 'long_open': False, 'keys': everything},
                      {'style': rng.choice(['bulk', 'meta', 'has']), 'long_open': rng.random() < 0.5, 'keys': everything}]
        for _ in range(nr if kind != 'target' else 0):
            style = rng.choice(['single', 'bulk', 'meta', 'has', 'seek', 'bulkseek'])
            long_open = rng.random() < 0.5
            keys = rng.sample(range(len(pool)), rng.randint(1, 4))
            rplans.append({'style': style, 'long_open': long_open, 'keys': keys})
        acked_log = []  # (position in the global log, cid)
        results = {}
        raw_pre = Raw(folder)

        # long-open readers pin their snapshot before anything else happens
        readers = []
        for i, plan in enumerate(rplans):
            c = dos.Container(folder)
            if plan['long_open']:
                c.has_objects([key(0), 'ab' * 20])
            readers.append(c)

        def packer(s):
            c = dos.Container(folder)
            try:
                c.pack_all_loose(compress=store._mode_obj(dos, mode), clean_loose_per_pack=clean_pp)  # pylint: disable=protected-access
                s.note(('phase', 'clean'))
                c.clean_storage()
            finally:
                c.close()
            return 'ok'

        def make_writer(i):
            def writer(s):
                c = dos.Container(folder)
                out = []
                try:
                    for x in wplans[i]:
                        k = c.add_object(pool.contents[x])
                        s.note(('ack', x))
                        out.append((x, k))
                finally:
                    c.close()
                return out
            return writer

        def make_reader(i):
            def reader(s):
                c = readers[i]
                plan = rplans[i]
                s.note(('start', i))
                ks = [key(x) for x in plan['keys']]
                try:
                    if plan['style'] == 'single':
                        out = {}
                        for x, k in zip(plan['keys'], ks):
                            try:
                                out[x] = c.get_object_content(k)
                            except dos.exceptions.NotExistent:
                                out[x] = None
                    elif plan['style'] == 'bulk':
                        got = c.get_objects_content(ks, skip_if_missing=False)
                        out = {x: got.get(k) for x, k in zip(plan['keys'], ks)}
                    elif plan['style'] == 'bulkseek':
                        out = {}
                        with c.get_objects_stream_and_meta(ks, skip_if_missing=False) as triplets:
                            for hk, st, meta in triplets:
                                x = plan['keys'][ks.index(hk)]
                                if st is None:
                                    out[x] = None
                                    continue
                                head = st.read(2)
                                n = st.seek(0, 2)
                                st.seek(0)
                                data = st.read()
                                out[x] = data if (n == len(data) == meta['size'] and data[:2] == head) else b'?size-mismatch'
                    elif plan['style'] == 'meta':
                        out = {}
                        for x, k in zip(plan['keys'], ks):
                            try:
                                m = c.get_object_meta(k)
                                out[x] = ('size', m['size'])
                            except dos.exceptions.NotExistent:
                                out[x] = None
                    elif plan['style'] == 'has':
                        hs = c.has_objects(ks)
                        out = {x: ('has', h) for x, h in zip(plan['keys'], hs)}
                    else:
                        out = {}
                        for x, k in zip(plan['keys'], ks):
                            try:
                                with c.get_object_stream(k) as st:
                                    st.seek(0, 2)
                                    n = st.tell()
                                    st.seek(0)
                                    data = st.read()
                                    out[x] = data if n == len(data) else b'?size-mismatch'
                            except dos.exceptions.NotExistent:
                                out[x] = None
                finally:
                    c.close()
                return out
            return reader

        if kind == 'random':
            policy = sched.policy_random(rng, {'packer': rng.choice([1.0, 2.0, 4.0])})
        else:
            # single preemption: everything of the other actors happens at one point inside the packer
            others = [f'reader:{i}' for i in range(nr)] + [f'writer:{i}' for i in range(nw)]
            if kind != 'target':
                rng.shuffle(others)
            policy = sched.policy_preempt_at('packer', idx % 56, others)
        sc = sched.Scheduler(folder, policy)
        sc.add('packer', packer)
        for i in range(nw):
            sc.add(f'writer:{i}', make_writer(i))
        for i in range(nr):
            sc.add(f'reader:{i}', make_reader(i))
        try:
            sc.run()
        except RuntimeError as exc:
            res['infra'] = str(exc)
            return res
        res['events'] = len(sc.log)
        res['stats']['events'] = len(sc.log)
        res['stats'][f'style.{rplans[0]["style"]}'] = 1
        res['sample'] = {'cfg': cfg.as_dict(), 'mode': mode, 'clean_per_pack': clean_pp, 'writers': wplans, 'readers': rplans,
                         'schedule_head': sc.schedule[:60], 'events': len(sc.log)}
        replay = {'kind': 'sched', 'case': [kind, idx], 'seed': common.seed(), 'schedule': sc.schedule, 'writers': wplans, 'readers': rplans,
                  'mode': mode, 'clean_per_pack': clean_pp, 'cfg': cfg.as_dict()}

        def fail(sig, text):
            res['failures'].append({'signature': sig, 'text': text, 'replay': replay})

        for name, a in sc.actors.items():
            if a.error:
                fail(f'{name.split(":")[0]}-raised', f'{name} raised {a.error}')
        # ---- direct oracle: acknowledged before the reader started => found, with exactly its bytes
        acked_at = {}
        acked = set(pre)
        for actor, ev in sc.log:
            if ev[0] == 'ack':
                acked.add(ev[1])
            elif ev[0] == 'start':
                acked_at[ev[1]] = set(acked)
        for i, plan in enumerate(rplans):
            out = sc.actors[f'reader:{i}'].result
            if out is None:
                continue
            for x in plan['keys']:
                v = out.get(x)
                must = x in acked_at.get(i, set())
                if isinstance(v, tuple) and v[0] == 'has':
                    ok_found, wrong = v[1], False
                elif isinstance(v, tuple) and v[0] == 'size':
                    ok_found, wrong = True, v[1] != pool.size(x)
                elif v is None:
                    ok_found, wrong = False, False
                else:
                    ok_found, wrong = True, v != pool.contents[x]
                if wrong:
                    fail(f'reader-wrong-{plan["style"]}', f'reader {i} ({plan["style"]}, long_open={plan["long_open"]}) got wrong bytes/size for cid {x}')
                if must and not ok_found:
                    fail(f'reader-missing-{plan["style"]}', f'reader {i} ({plan["style"]}, long_open={plan["long_open"]}) did not find cid {x}, acknowledged before it started')
                if ok_found and x not in acked and not any(x in w for w in wplans):
                    fail('reader-ghost', f'reader {i} found cid {x} that nobody added')
        for i in range(nw):
            for x, k in (sc.actors[f'writer:{i}'].result or []):
                if cid(k) != x:
                    fail('writer-key', f'writer {i}: add of cid {x} returned the key of cid {cid(k)}')
        # final state: everything acknowledged is there, readable by a fresh handle, consistent
        raw = Raw(folder)
        for p in raw.consistency_problems():
            fail('final-raw', p)
        c = dos.Container(folder)
        try:
            for x in sorted(acked):
                try:
                    if c.get_object_content(key(x)) != pool.contents[x]:
                        fail('final-wrong', f'after the run cid {x} reads back wrong')
                except dos.exceptions.NotExistent:
                    fail('final-missing', f'after the run acknowledged cid {x} is gone')
        finally:
            c.close()
        # ---- correspondence: the packer's interleaved trace and the discipline, evaluated by the Lean model
        _model_side(res, sc, cfg, pool, raw_pre, raw, cid, mode, clean_pp, acked)
    except common.Infra as exc:
        res['infra'] = str(exc)
    except Exception as exc:  # pylint: disable=broad-except
        import traceback  # pylint: disable=import-outside-toplevel

        res['breaks'].append({'where': 'harness exception', 'model': '', 'real': f'{type(exc).__name__}: {exc} {traceback.format_exc()[-900:]}',
                              'theorem_or_correspondence': 'harness', 'case': {'job': job}})
    finally:
        common.rmscratch(scratch)
    return res


def _model_side(res, sc, cfg, pool, raw_pre, raw_post, cid, mode, clean_pp, acked):
    """feed the initial state to the driver, compile pack_all_loose / clean_storage from the states at which the packer
    listed the loose folder, replay the real schedule of packer actions and writer publishes, ask whether it is disciplined"""
    packer_events = [ev for a, ev in sc.log if a == 'packer']
    row_keys = {r[1] for r in raw_pre.rows}
    cidf = lambda k: (cid(k) if cid(k) is not None else 999999)  # noqa: E731
    # split the packer's events at the phase marker
    split = next((i for i, ev in enumerate(packer_events) if ev[0] == 'phase'), len(packer_events))
    ev_pack = [e for e in packer_events[:split] if e[0] not in ('select', 'stat')]
    ev_clean = [e for e in packer_events[split + 1:] if e[0] not in ('select', 'stat')]
    toks_pack, _ = iotrace.canon(ev_pack, cidf, row_keys)
    toks_clean, _ = iotrace.canon(ev_clean, cidf, {r[1] for r in raw_post.rows})
    toks_pack = [t for t in toks_pack if not t.startswith('readLoose') or True]
    with common.Driver() as drv:
        def ask(line):
            out = drv.ask(line)
            if out.startswith('bad-op'):
                raise common.Infra(f'driver rejected {line[:160]}: {out}')
            return out
        ask(f'conc new {cfg.target}')
        ask(f'conc tab {pool.tab_entries(level=cfg.level)}')
        # initial state from the raw folder
        rows = ';'.join(f'{rid}.{cidf(hk)}.{pack}.{off}.{ln}.{1 if comp else 0}.{size}' for (rid, hk, pack, off, ln, comp, size) in raw_pre.rows) or '-'
        loose = ','.join(str(cidf(k)) for k in raw_pre.loose_bytes) or '-'
        packs = []
        for name in sorted(raw_pre.pack_names_valid(), key=int):
            rs = sorted([r for r in raw_pre.rows if str(r[2]) == name], key=lambda r: (r[3], r[4] != 0))
            packs.append(f'{name}:' + (','.join(f'{cidf(r[1])}.{1 if r[5] else 0}' for r in rs) or '-'))
        ask(f'conc init {loose} {"|".join(packs) or "-"} {rows}')
        # the packer's choices, observed: order and verdicts of the rows it created
        pre_keys = {r[1] for r in raw_pre.rows}
        new = [r for r in raw_post.rows if r[1] not in pre_keys]
        order_rows = []
        for p in sorted({r[2] for r in new}):
            order_rows += store.rows_sorted_for_order([r for r in new if r[2] == p])
        order = [cidf(r[1]) for r in order_rows]
        zs = [1 if r[5] else 0 for r in order_rows]
        unlinked = [int(t.split(':')[1]) for t in toks_clean if t.startswith('looseUnlink:')]
        # the schedule in model terms.  An event is logged when it is *announced* (the hook runs before the call); the call
        # itself executes when its actor gets its next turn.  Effects therefore happen in the order of the turns.
        NOTES = ('ack', 'start', 'phase')
        per_actor = {}
        for actor, ev in sc.log:
            if ev[0] not in NOTES:
                per_actor.setdefault(actor, []).append(ev)
        turns = {}
        sched_items = []
        for actor in sc.schedule:
            n = turns.get(actor, 0) + 1
            turns[actor] = n
            if n >= 2 and n - 2 < len(per_actor.get(actor, [])):
                ev = per_actor[actor][n - 2]
                if actor == 'packer':
                    if ev[0] not in ('select', 'stat'):
                        sched_items.append(('P', ev))
                elif ev[0] in ('rename', 'replace') and (ev[2] or '').startswith('loose'):  # a writer, or a seeking reader re-loosening
                    sched_items.append(('W', cidf(''.join((ev[2] or '').split('/')[1:]))))
        ans = ask(f'conc acts {mode} {1 if clean_pp else 0} {store.show_nats(order)} {store.show_nats(zs)} {store.show_nats(unlinked)}')
        acts, _, lens = ans.partition(' | ')
        lengths = [int(x) for x in lens.split(',')] if lens.strip() not in ('-', '') else []
        model_toks, idx_map = iotrace.canon_model(acts.strip(), lengths, None)
        real_toks = toks_pack + toks_clean
        res['stats']['traces_compared'] = 1
        if model_toks != real_toks:
            i = 0
            while i < min(len(model_toks), len(real_toks)) and model_toks[i] == real_toks[i]:
                i += 1
            res['breaks'].append({'where': f'interleaved I/O trace of the packer at action {i}', 'model': ' '.join(model_toks[max(0, i - 3):i + 4]),
                                  'real': ' '.join(real_toks[max(0, i - 3):i + 4]), 'theorem_or_correspondence': 'Dos.IO action list vs traced packer under interleaving',
                                  'case': {'mode': mode, 'clean_per_pack': clean_pp}})
            return
        # position of every model action in the real schedule: after the last raw event of its token
        p_events = [ev for kind_, ev in sched_items if kind_ == 'P']
        _, owner = iotrace.canon(p_events, cidf, row_keys | {r[1] for r in raw_post.rows})
        last_of_tok = {}
        for i, o in enumerate(owner):
            if o is not None:
                last_of_tok[o] = i
        act_at = {}  # raw packer event index -> list of model action indices completed there
        prev_tok_end = -1
        for a_i, tok_i in enumerate(idx_map):
            pos = last_of_tok.get(tok_i, prev_tok_end) if tok_i is not None else prev_tok_end
            act_at.setdefault(pos, []).append(a_i)
            prev_tok_end = max(prev_tok_end, pos) if tok_i is not None else prev_tok_end
        line = []
        pi = -1
        for a_i in act_at.get(-1, []):
            line.append(f'p{a_i}')
        for kind_, ev in sched_items:
            if kind_ == 'P':
                pi += 1
                for a_i in act_at.get(pi, []):
                    line.append(f'p{a_i}')
            else:
                line.append(f'w{ev}')
        out = ask('conc run ' + (','.join(line) if line else '-'))
        res['stats']['discipline_checked'] = 1
        if not out.startswith('disciplined=1'):
            res['breaks'].append({'where': 'packer discipline on the real schedule', 'model': out[:300], 'real': ' '.join(line)[:300],
                                  'theorem_or_correspondence': 'Dos.Conc.disciplined (hypothesis of reader_correct) on the real interleaving', 'case': {'mode': mode}})
        state = out.split(' ', 1)[1] if ' ' in out else ''
        # final state
        from ..crashlab import parse_state, seg_bytes  # pylint: disable=import-outside-toplevel

        m_loose, m_rows, m_packs, _ = parse_state(state)
        real_rows = {(rid, cidf(hk), pack, off, ln, 1 if comp else 0, size) for (rid, hk, pack, off, ln, comp, size) in raw_post.rows}
        real_loose = {cidf(k): (pool.cid_of_bytes(v) if pool.cid_of_bytes(v) is not None else 4294967294) for k, v in raw_post.loose_bytes.items()}
        problems = []
        if real_rows != m_rows:
            problems.append(f'rows: model-only {sorted(m_rows - real_rows)[:2]} real-only {sorted(real_rows - m_rows)[:2]}')
        if real_loose != m_loose:
            problems.append(f'loose: model {sorted(m_loose.items())} real {sorted(real_loose.items())}')
        for pid, segs in m_packs.items():
            if seg_bytes(pool, cfg.level, segs) != raw_post.pack_bytes.get(str(pid), b'?'):
                problems.append(f'pack {pid} differs')
        if problems:
            res['breaks'].append({'where': 'final state after the interleaved run: ' + problems[0][:200], 'model': state[:300], 'real': '',
                                  'theorem_or_correspondence': 'Dos.Conc.crun final disk vs the folder', 'case': {'mode': mode, 'clean_per_pack': clean_pp}})


def run(tier: str) -> Report:
    rep = Report('C04')
    plan = QUICK if tier == 'quick' else THOROUGH
    jobs = [('random', i) for i in range(plan['random'])] + [('preempt', i) for i in range(plan['preempt'])] + \
        [('target', i) for i in range(plan['target'])]
    ctx = mp.get_context('fork')
    with ctx.Pool(processes=min(14, os.cpu_count() or 4)) as pool:
        results = pool.map(run_case, jobs, chunksize=1)
    # true parallelism (a sample): separate processes, no scheduler
    from .. import parallel  # pylint: disable=import-outside-toplevel

    for i in range(2 if tier == 'quick' else 25):
        pr = parallel.run_parallel(i, 1.5 if tier == 'quick' else 4.0)
        if pr.get('infra'):
            rep.infra.append(pr['infra'])
        for sig, text in pr['failures'][:2]:
            rep.failures.append({'signature': sig, 'text': 'processes running in parallel: ' + text, 'replay': {'kind': 'parallel', 'case_id': i, 'seed': common.seed()}})
        for k, v in pr['stats'].items():
            rep.stats[k] = rep.stats.get(k, 0) + v
        rep.evaluations += 1
    scheds = set()
    for r in results:
        rep.evaluations += 1
        if r.get('infra'):
            rep.infra.append(r['infra'])
        rep.failures += r['failures'][:2]
        rep.breaks += r['breaks'][:2]
        for k, v in r['stats'].items():
            rep.stats[k] = rep.stats.get(k, 0) + v
        if r.get('sample'):
            scheds.add(json.dumps(r['sample']['schedule_head']))
            if len(rep.samples) < 2:
                rep.samples.append(r['sample'])
    rep.traces_validated = rep.stats.get('traces_compared', 0) + rep.stats.get('discipline_checked', 0)
    rep.distinct_nontrivial = len(scheds)
    rep.rule = ('real actors (1 packer: pack_all_loose [any mode, with/without clean_loose_per_pack] then clean_storage; 1-2 writers adding new and '
                'duplicate content; 1-3 readers: single / bulk / metadata / existence / seeking, fresh or long-open handles) as threads under a '
                'cooperative scheduler switching at every file-system call and SQL statement; seeded random schedules plus single-preemption '
                'placements of all other actors at the i-th I/O call of the packer; distinct = distinct schedule prefixes')
    rep.assumptions = ['the scheduler serialises the actors: the atomicity of rename/unlink and SQLite\'s own locking are assumed; true parallel execution is only sampled '
                       '(a few seconds of writer, reader and packer processes per run), not explored',
                       'SQLite WAL snapshot isolation']
    return rep


def replay(path: str) -> int:
    doc = json.loads(open(path).read())
    rp = doc.get('replay') or {}
    if rp.get('kind') == 'parallel':
        from .. import parallel  # pylint: disable=import-outside-toplevel

        os.environ['VERIF_SEED'] = str(rp.get('seed', 0))
        pr = parallel.run_parallel(rp['case_id'], 4.0)
        for sig, text in pr['failures']:
            print('FAIL', sig, text)
        if pr['failures']:
            print(f'VIOLATION property=C04 replay={path}')
            return 1
        print('the parallel run is a sample: this time nothing failed')
        return 0
    if rp.get('kind') != 'sched':
        print('nothing to replay')
        return 2
    os.environ['VERIF_SEED'] = str(rp.get('seed', 0))
    common.build_lean()
    r = run_case(tuple(rp['case']))
    for f in r['failures']:
        print('FAIL', f['text'])
    for b in r['breaks']:
        print('BREAK', b)
    if r['failures']:
        print(f'VIOLATION property=C04 replay={path}')
        return 1
    return 0
