"""C13: decided on operation histories (see DESIGN.md section 7 for what is compared and proved)."""
from ._store import replay_store, run_store

QUICK = [('appendonly', 120)]
THOROUGH = [('appendonly', 1600)]


def run(tier: str):
    return run_store('C13', tier, QUICK, THOROUGH)


def replay(path: str) -> int:
    return replay_store('C13', path)
