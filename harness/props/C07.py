"""C07: every returned stream behaves like an in-memory file over the object.

Lean side (lean/Dos/Stream.lean, Dos/Proofs/Stream*.lean): `Packed` and `Decomp` refine `Ref` for every program with
in-range targets, for every decoder satisfying the contract; out-of-range seeks leave the position unchanged / clamp.
This module ties those models to the code:
  A  real streams of a real container (loose / packed / packed+compressed, with and without the loose cache)
     against io.BytesIO  - the direct oracle of the property;
  B  the real PackedObjectReader against the Lean `Packed` model (exact outputs, errors included);
  C  the real ZlibLikeBaseStreamDecompresser, with the Python twin of the Lean toy decoder plugged in,
     against the Lean `Decomp` model;
  D  zlib.decompressobj against the decoder contract the theorem assumes.
"""
from __future__ import annotations

import io
import json
import multiprocessing as mp
import os

from .. import common, streams
from . import _multi
from ..content import gen_content
from ..main import Report

QUICK = {'A': 70, 'B': 150, 'C': 220, 'D': 50, 'Abig': 4}
THOROUGH = {'A': 700, 'B': 2000, 'C': 3000, 'D': 500, 'Abig': 60}


def _content(rng, big=False):
    if big:
        size = rng.choice([65536, 131073, 524287, 524288, 524289, 700001, 1200000])
        kind = rng.choice(['random', 'mixed', 'text', 'mixed'])
    else:
        size = rng.choice([0, 1, 2, 5, 17, 64, 300, 1500, rng.randint(0, 4000)])
        kind = rng.choice(['random', 'zeros', 'text', 'periodic', 'mixed'])
    return gen_content(rng, kind, size)


def case_A(idx: int, big: bool):
    dos = common.import_repo()
    from disk_objectstore.utils import ZlibStreamDecompresser  # pylint: disable=import-outside-toplevel

    rng = common.rng_for('C07', 'A', big, idx)
    res = {'kind': 'Abig' if big else 'A', 'idx': idx, 'problems': [], 'programs': 0, 'forms': {}}
    scratch = common.mkscratch('C07')
    old_chunk = ZlibStreamDecompresser._CHUNKSIZE  # pylint: disable=protected-access
    try:
        lowered = (not big) and rng.random() < 0.6
        if lowered:
            ZlibStreamDecompresser._CHUNKSIZE = rng.choice([1, 2, 3, 5, 16, 64])  # pylint: disable=protected-access
        c = dos.Container(os.path.join(scratch, 'c'))
        c.init_container(hash_type=rng.choice(['sha1', 'sha256']), loose_prefix_len=rng.choice([0, 2]),
                         compression_algorithm=f'zlib+{rng.choice([1, 6, 9])}')
        contents = []
        seen = set()
        for _ in range(3 if big else 5):
            b = _content(rng, big and len(contents) == 1)
            if b not in seen:
                seen.add(b)
                contents.append(b)
        # neighbours with recognisable patterns on both sides of every object
        fill = [bytes([0xA0 + i]) * 37 for i in range(len(contents) + 1)]
        form = rng.choice(['loose', 'packed', 'packedz', 'packedz_cached'])
        keys = []
        if form == 'loose':
            keys = [c.add_object(b) for b in contents]
        else:
            batch = []
            for i, b in enumerate(contents):
                batch += [fill[i], b]
            batch.append(fill[-1])
            ks = c.add_objects_to_pack(batch, compress=form.startswith('packedz'))
            keys = ks[1::2]
            if form == 'packedz_cached':
                for k in keys:
                    c.loosen_object(k)
        res['forms'][form] = 1
        res['config'] = {'form': form, 'lowered_chunk': ZlibStreamDecompresser._CHUNKSIZE if lowered else None,  # pylint: disable=protected-access
                         'sizes': [len(b) for b in contents]}
        for key, b in zip(keys, contents):
            for oob in (False, True):
                prog = streams.gen_program(rng, len(b), rng.randint(4, 14), oob=oob)
                with c.get_object_stream(key) as stream:
                    probs = streams.compare_with_bytesio(stream, b, prog, f'{form} size={len(b)} single')
                res['programs'] += 1
                if probs:
                    res['problems'].append({'text': probs[0], 'replay': {'kind': 'A', 'idx': idx, 'big': big, 'form': form,
                                                                         'size': len(b), 'program': prog, 'config': res['config']}})
        # bulk form: one program per object while iterating
        with c.get_objects_stream_and_meta(keys) as triplets:
            for key, stream, meta in triplets:
                b = contents[keys.index(key)]
                prog = streams.gen_program(rng, len(b), rng.randint(3, 9))
                probs = streams.compare_with_bytesio(stream, b, prog, f'{form} size={len(b)} bulk')
                if meta['size'] != len(b):
                    probs.append(f'{form}: bulk metadata size {meta["size"]} for an object of {len(b)} bytes')
                res['programs'] += 1
                if probs:
                    res['problems'].append({'text': probs[0], 'replay': {'kind': 'A', 'idx': idx, 'big': big, 'form': form, 'bulk': True,
                                                                         'size': len(b), 'program': prog, 'config': res['config']}})
        c.close()
    except Exception as exc:  # pylint: disable=broad-except
        import traceback  # pylint: disable=import-outside-toplevel

        res['problems'].append({'text': f'harness exception {type(exc).__name__}: {exc} {traceback.format_exc()[-600:]}', 'replay': {'kind': 'A', 'idx': idx}})
    finally:
        ZlibStreamDecompresser._CHUNKSIZE = old_chunk  # pylint: disable=protected-access
        common.rmscratch(scratch)
    return res


def case_B(idx: int):
    common.import_repo()
    from disk_objectstore.utils import PackedObjectReader  # pylint: disable=import-outside-toplevel

    rng = common.rng_for('C07', 'B', idx)
    pre = gen_content(rng, 'random', rng.choice([0, 1, 10, 40]))
    obj = gen_content(rng, rng.choice(['random', 'text']), rng.choice([0, 1, 2, 7, 30, 200]))
    post = gen_content(rng, 'random', rng.choice([0, 1, 10, 40]))
    prog = streams.gen_program(rng, len(obj), rng.randint(3, 16), oob=rng.random() < 0.5)
    real = streams.run_python_stream(PackedObjectReader(streams.BIO(pre + obj + post), len(pre), len(obj)), prog, len(obj))
    res = {'kind': 'B', 'idx': idx, 'problems': [], 'breaks': [], 'programs': 1}
    with common.Driver() as drv:
        drv.ask(f'stream open packed {streams.hexs(pre)} {streams.hexs(obj)} {streams.hexs(post)}')
        for i, (cmd, r) in enumerate(zip(prog, real)):
            m = drv.ask(streams.model_cmd(cmd))
            if m != streams.show_out(r):
                res['breaks'].append({'where': f'PackedObjectReader command #{i} {cmd}', 'model': m[:200], 'real': streams.show_out(r)[:200],
                                      'theorem_or_correspondence': 'Dos.Stream.Packed vs disk_objectstore.utils.PackedObjectReader',
                                      'case': {'pre': len(pre), 'obj': obj.hex(), 'post': len(post), 'program': prog}})
                break
    # the direct oracle on the same run (in-range part)
    probs = streams.compare_with_bytesio(PackedObjectReader(streams.BIO(pre + obj + post), len(pre), len(obj)), obj, prog, 'PackedObjectReader')
    if probs:
        res['problems'].append({'text': probs[0], 'replay': {'kind': 'B', 'idx': idx, 'program': prog, 'obj': obj.hex(), 'pre': len(pre)}})
    return res


def case_C(idx: int):
    common.import_repo()
    from disk_objectstore.utils import PackedObjectReader, ZlibLikeBaseStreamDecompresser  # pylint: disable=import-outside-toplevel

    rng = common.rng_for('C07', 'C', idx)
    pre = gen_content(rng, 'random', rng.choice([0, 3, 20]))
    post = gen_content(rng, 'random', rng.choice([0, 3, 20]))
    plain = gen_content(rng, rng.choice(['zeros', 'periodic', 'mixed', 'random', 'text']), rng.choice([0, 1, 2, 3, 9, 40, 260, 700]))
    if rng.random() < 0.3:
        plain = bytes(rng.choice([3, 100, 300])) + plain  # a long run first: output pending without input being consumed
    chunk = rng.choice([1, 2, 3, 4, 5, 8, 16, 64, 524288])
    lazy = rng.random() < 0.5
    prog = streams.gen_program(rng, len(plain), rng.randint(3, 16), oob=rng.random() < 0.4)
    e = streams.toy_enc(plain)

    class ToyStream(ZlibLikeBaseStreamDecompresser):
        _CHUNKSIZE = chunk

        @property
        def decompressobj_class(self):
            return streams.ToyDecompressobj

        @property
        def decompress_error(self):
            return streams.ToyError

    def fresh():
        stub = streams.LazyStub(plain) if lazy else None
        return ToyStream(PackedObjectReader(streams.BIO(pre + e + post), len(pre), len(e)), lazy_uncompressed_stream=stub)

    res = {'kind': 'C', 'idx': idx, 'problems': [], 'breaks': [], 'programs': 1, 'stats': {'lazy': int(lazy), f'chunk{chunk}': 1}}
    real = streams.run_python_stream(fresh(), prog, len(plain))
    with common.Driver() as drv:
        ans = drv.ask(f'stream open comp {streams.hexs(pre)} {streams.hexs(plain)} {streams.hexs(post)} {1 if lazy else 0} {chunk}')
        if ans != 'ok ' + streams.hexs(e):
            res['breaks'].append({'where': 'toy encoder', 'model': ans[:200], 'real': streams.hexs(e)[:200],
                                  'theorem_or_correspondence': 'toyEnc twin', 'case': {'plain': plain.hex()}})
            return res
        for i, (cmd, r) in enumerate(zip(prog, real)):
            m = drv.ask(streams.model_cmd(cmd))
            if m != streams.show_out(r):
                res['breaks'].append({'where': f'decompresser command #{i} {cmd}', 'model': m[:200], 'real': streams.show_out(r)[:200],
                                      'theorem_or_correspondence': 'Dos.Stream.Decomp (toy decoder) vs ZlibLikeBaseStreamDecompresser',
                                      'case': {'plain': plain.hex(), 'chunk': chunk, 'lazy': lazy, 'program': prog, 'pre': len(pre)}})
                break
    probs = streams.compare_with_bytesio(fresh(), plain, [c for c in prog if lazy or not (c[0] == 'seek' and c[2] == 2)], 'base decompresser+toy')
    if probs:
        res['problems'].append({'text': probs[0], 'replay': {'kind': 'C', 'idx': idx, 'program': prog, 'plain': plain.hex(), 'chunk': chunk, 'lazy': lazy}})
    return res


def case_D(idx: int):
    common.import_repo()
    import zlib  # pylint: disable=import-outside-toplevel

    from disk_objectstore.utils import PackedObjectReader, ZlibStreamDecompresser  # pylint: disable=import-outside-toplevel

    rng = common.rng_for('C07', 'D', idx)
    big = rng.random() < 0.12
    if big:
        plain = bytes(rng.choice([100, 600, 3000])) + gen_content(rng, 'random', rng.choice([600000, 1100000]))
        chunk = 524288
    else:
        plain = gen_content(rng, rng.choice(['zeros', 'periodic', 'mixed', 'random', 'text']), rng.choice([0, 1, 5, 100, 3000, 70000]))
        chunk = rng.choice([1, 2, 7, 64, 1000, 524288])
    e = zlib.compress(plain, rng.choice([1, 6, 9]))
    log: list = []

    class Mon(ZlibStreamDecompresser):
        _CHUNKSIZE = chunk

        @property
        def decompressobj_class(self):
            return streams.make_monitored_decompressobj(e, plain, log)

    prog = streams.gen_program(rng, len(plain), rng.randint(3, 10), allow_w2=False)
    if big:
        prog = [('read', 100), ('read', 100), ('read', 1000000)] + prog[:4]
    pre = b'\x11' * 9
    stream = Mon(PackedObjectReader(streams.BIO(pre + e + b'\x22' * 5), len(pre), len(e)))
    probs = streams.compare_with_bytesio(stream, plain, prog, f'zlib stream size={len(plain)} chunk={chunk}')
    res = {'kind': 'D', 'idx': idx, 'problems': [], 'breaks': [], 'programs': 1}
    if log:
        res['breaks'].append({'where': 'decoder contract', 'model': 'Decoder.Valid clause', 'real': log[0],
                              'theorem_or_correspondence': 'zlib.decompressobj vs the contract assumed by decomp_refines_ref',
                              'case': {'size': len(plain), 'chunk': chunk, 'program': prog}})
    if probs:
        res['problems'].append({'text': probs[0], 'replay': {'kind': 'D', 'idx': idx, 'program': prog, 'size': len(plain), 'chunk': chunk}})
    return res


def _work(job):
    kind, idx = job
    try:
        if kind == 'A':
            return case_A(idx, False)
        if kind == 'Abig':
            return case_A(idx, True)
        if kind == 'B':
            return case_B(idx)
        if kind == 'C':
            return case_C(idx)
        return case_D(idx)
    except common.Infra as exc:
        return {'kind': kind, 'idx': idx, 'infra': str(exc), 'problems': [], 'breaks': [], 'programs': 0}


def run(tier: str) -> Report:
    rep = Report('C07')
    plan = QUICK if tier == 'quick' else THOROUGH
    jobs = [(k, i) for k, n in plan.items() for i in range(n)]
    ctx = mp.get_context('fork')
    with ctx.Pool(processes=min(14, os.cpu_count() or 4)) as pool:
        results = pool.map(_work, jobs, chunksize=2)
    kinds: dict = {}
    for r in results:
        rep.evaluations += r.get('programs', 0)
        kinds[r['kind']] = kinds.get(r['kind'], 0) + r.get('programs', 0)
        if r.get('infra'):
            rep.infra.append(r['infra'])
        for p in r['problems']:
            rep.failures.append({'signature': 'stream-' + p['text'].split(':')[0].replace(' ', '_')[:40], 'text': p['text'], 'replay': p['replay']})
        for b in r.get('breaks', []):
            rep.breaks.append(b)
        if r['kind'] in ('B', 'C'):
            rep.traces_validated += r.get('programs', 0)
        for k, v in r.get('forms', {}).items():
            rep.stats['form.' + k] = rep.stats.get('form.' + k, 0) + v
        for k, v in r.get('stats', {}).items():
            rep.stats[k] = rep.stats.get(k, 0) + v
        if len(rep.samples) < 3 and r['kind'] == 'A' and r.get('config'):
            rep.samples.append(r['config'])
    # streams handed out by a long-open handle through the slow read path (snapshot, loose, refreshed index), several per request
    rep.failures += _multi.stale_handle_failures('C07', 40 if tier == 'quick' else 600, ('bulkseek-wrong',), rep)
    rep.stats.update({f'programs.{k}': v for k, v in kinds.items()})
    rep.distinct_nontrivial = rep.evaluations  # every program is generated from its own PRNG state; ≥3 commands each
    rep.rule = ('seeded programs over read(n)/read()/seek(t,0|1|2)/tell(), 80% in-range targets plus an out-of-range stream; '
                'A: real container streams vs io.BytesIO in four storage forms with neighbouring objects; B/C: real reader classes vs the Lean '
                'models (exact outputs); D: zlib.decompressobj vs the decoder contract; each program has 3-16 commands and its own seed')
    rep.assumptions = [
        'the loose form is an OS file object (the reference semantics itself); in-memory reference is io.BytesIO',
        'zlib.decompressobj satisfies the decoder contract (checked on every call in part D, not proved)',
        'the Lean toy decoder and its Python twin are the same function (compared on every case of part C)',
    ]
    return rep


def replay(path: str) -> int:
    r_ = _multi.replay_multi('C07', path)
    if r_ is not None:
        return r_
    doc = json.loads(open(path).read())
    rp = doc.get('replay') or {}
    os.environ['VERIF_SEED'] = str(doc.get('seed', 0))
    common.build_lean()
    kind = rp.get('kind')
    if kind == 'A':
        r = case_A(rp['idx'], rp.get('big', False))
    elif kind == 'B':
        r = case_B(rp['idx'])
    elif kind == 'C':
        r = case_C(rp['idx'])
    elif kind == 'D':
        r = case_D(rp['idx'])
    else:
        print('nothing to replay: see the file for the correspondence that no longer checks')
        return 2
    for p in r['problems']:
        print('FAIL', p['text'])
    for b in r.get('breaks', []):
        print('BREAK', b)
    if r['problems']:
        print(f'VIOLATION property=C07 replay={path}')
        return 1
    return 0
