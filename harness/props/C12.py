"""C12: decided on operation histories (see DESIGN.md section 7 for what is compared and proved)."""
from ._store import replay_store, run_store

QUICK = [('general', 80), ('compress', 30)]
THOROUGH = [('general', 800), ('compress', 300)]


def run(tier: str):
    return run_store('C12', tier, QUICK, THOROUGH)


def replay(path: str) -> int:
    return replay_store('C12', path)
