"""C12: validate() is clean on every reachable state and never clean on a damaged one.

Lean side: `validate_clean` (Dos/Proofs/Validate.lean): the model of validate() reports nothing on every state satisfying
the invariant, i.e. on every reachable state; `validate_sound` / `validate_sound_readable` / `damaged_never_clean`
(Dos/Proofs/BytesProofs.lean): on ARBITRARY bytes and index rows, a clean report implies that every object reads back as
bytes whose digest is its key and whose length is its recorded size.
Here: (1) operation histories with validate() of the implementation compared with the model after every step (no false
positives); (2) damage enumeration on small multi-pack containers with loose, packed, compressed and both-forms objects:
every single-bit flip and truncation of every loose file and every pack, every perturbation of offset / length / size /
compressed / pack_id of every index row; the ground truth (is some object now unreadable, different, or of another size?)
is computed with sqlite3 / zlib / hashlib only and through every read path of the library."""
from __future__ import annotations

import hashlib
import json
import multiprocessing as mp
import os
import shutil
import sqlite3
import zlib

from .. import common, store
from ..content import gen_content
from ..main import Report
from ._store import run_store

QUICK_HIST = [('general', 60), ('compress', 24)]
THOROUGH_HIST = [('general', 800), ('compress', 300)]
QUICK_DMG = 14
THOROUGH_DMG = 200


def build(rng, scratch):
    dos = common.import_repo()
    hash_type = rng.choice(['sha1', 'sha256'])
    folder = os.path.join(scratch, 'base')
    c = dos.Container(folder)
    c.init_container(pack_size_target=rng.choice([60, 200, 4 * 1024 ** 3]), loose_prefix_len=rng.choice([0, 2]), hash_type=hash_type,
                     compression_algorithm=f'zlib+{rng.choice([1, 6, 9])}')
    objs = {}
    contents = []
    seen = set()
    for _ in range(7):
        b = gen_content(rng, rng.choice(['random', 'text', 'zeros', 'periodic']), rng.choice([0, 1, 5, 33, 120]))
        if b not in seen:
            seen.add(b)
            contents.append(b)
    # packed uncompressed, packed compressed (several packs when the target is small), loose only, loose + packed
    ks = c.add_objects_to_pack(contents[:2], compress=False)
    ks += c.add_objects_to_pack(contents[2:4], compress=True)
    both = c.add_object(contents[4]) if len(contents) > 4 else None
    if both:
        c.pack_all_loose(compress=rng.random() < 0.5)  # not cleaned: loose and packed
    loose = [c.add_object(b) for b in contents[5:]]
    for b in contents:
        objs[hashlib.new(hash_type, b).hexdigest()] = b
    c.close()
    # let SQLite fold the WAL into the main file so that the folder can be copied and patched freely
    con = sqlite3.connect(os.path.join(folder, 'packs.idx'))
    con.execute('PRAGMA wal_checkpoint(TRUNCATE)')
    con.close()
    return dos, folder, hash_type, objs


def truth(dos, folder, hash_type, objs):
    """is some object unreadable / different / of another size than recorded?  Computed (a) with stdlib only, (b) through
    every read path of the library (single, bulk, chunked stream, seek-from-end which may use the loose copy)."""
    from ..rawstate import Raw  # pylint: disable=import-outside-toplevel

    bad = []
    try:
        raw = Raw(folder)
    except Exception as exc:  # pylint: disable=broad-except
        return [f'raw reader failed: {type(exc).__name__}']
    rows = {r[1]: r for r in raw.rows}
    for key, content in objs.items():
        r = rows.get(key)
        if r is not None:
            (_rid, _hk, pack, off, length, comp, size) = r
            pb = raw.pack_bytes.get(str(pack))
            if pb is None or off < 0 or length < 0:
                bad.append(f'{key[:8]}: row unusable')
                continue
            data = pb[off:off + length]
            try:
                plain = zlib.decompress(data) if comp else data
            except zlib.error:
                bad.append(f'{key[:8]}: does not inflate')
                continue
            if plain != content:
                bad.append(f'{key[:8]}: packed bytes differ')
            elif len(plain) != size:
                bad.append(f'{key[:8]}: size {size} recorded for {len(plain)} bytes')
        if key in raw.loose_bytes and raw.loose_bytes[key] != content:
            bad.append(f'{key[:8]}: loose bytes differ')
        if r is None and key not in raw.loose_bytes:
            bad.append(f'{key[:8]}: gone')
    # through the library
    c = dos.Container(folder)
    try:
        for key, content in objs.items():
            try:
                if c.get_object_content(key) != content:
                    bad.append(f'{key[:8]}: library reads other bytes')
                m = c.get_object_meta(key)
                if m['size'] != len(content):
                    bad.append(f'{key[:8]}: library reports size {m["size"]}')
                with c.get_object_stream(key) as st:
                    st.seek(0, 2)
                    st.seek(0)
                    if st.read() != content:
                        bad.append(f'{key[:8]}: library reads other bytes after seeking')
            except Exception as exc:  # pylint: disable=broad-except
                bad.append(f'{key[:8]}: library read raises {type(exc).__name__}')
    finally:
        c.close()
    return bad


def validates_clean(dos, folder):
    c = dos.Container(folder)
    try:
        return c.validate().is_valid(), None
    except Exception as exc:  # pylint: disable=broad-except
        return False, type(exc).__name__
    finally:
        c.close()


def damages(rng, folder, quick: bool):
    """(description, function applying the damage to a copy)"""
    out = []
    files = []
    for base, _d, fs in os.walk(os.path.join(folder, 'loose')):
        files += [os.path.join(base, f) for f in fs]
    packs = [os.path.join(folder, 'packs', f) for f in sorted(os.listdir(os.path.join(folder, 'packs')))]
    for path in files + packs:
        rel = os.path.relpath(path, folder)
        size = os.path.getsize(path)
        positions = list(range(size))
        if quick and size > 40:
            positions = sorted(set(rng.sample(positions, 40)) | {0, size - 1})
        for pos in positions:
            bit = rng.randrange(8)
            out.append((f'flip bit {bit} of byte {pos} of {rel}', ('flip', rel, pos, bit)))
        cuts = list(range(size)) if (not quick or size <= 12) else sorted(set(rng.sample(range(size), 8)) | {0, size - 1})
        for cut in cuts:
            out.append((f'truncate {rel} to {cut} bytes', ('trunc', rel, cut)))
    con = sqlite3.connect(os.path.join(folder, 'packs.idx'))
    rows = con.execute('SELECT id, offset, length, size, compressed, pack_id FROM db_object').fetchall()
    con.close()
    for (rid, off, length, size, comp, pack) in rows:
        for field, val in (('offset', off + 1), ('offset', max(0, off - 1)), ('length', length + 1), ('length', max(0, length - 1)),
                           ('size', size + 1), ('size', max(0, size - 1)), ('compressed', 0 if comp else 1), ('pack_id', pack + 1)):
            out.append((f'row {rid}: {field} := {val}', ('row', rid, field, val)))
    return out


def apply_damage(folder, dmg):
    if dmg[0] == 'flip':
        p = os.path.join(folder, dmg[1])
        with open(p, 'r+b') as fh:
            fh.seek(dmg[2])
            b = fh.read(1)
            fh.seek(dmg[2])
            fh.write(bytes([b[0] ^ (1 << dmg[3])]))
    elif dmg[0] == 'trunc':
        with open(os.path.join(folder, dmg[1]), 'r+b') as fh:
            fh.truncate(dmg[2])
    else:
        con = sqlite3.connect(os.path.join(folder, 'packs.idx'))
        con.execute(f'UPDATE db_object SET {dmg[2]} = ? WHERE id = ?', (dmg[3], dmg[1]))
        con.commit()
        con.execute('PRAGMA wal_checkpoint(TRUNCATE)')
        con.close()


def damage_case(idx: int, quick: bool = True):
    rng = common.rng_for('C12', 'damage', idx)
    res = {'idx': idx, 'failures': [], 'breaks': [], 'stats': {'damages': 0, 'harmful': 0, 'harmless': 0, 'kinds': {}}, 'sample': None}
    scratch = common.mkscratch('C12')
    try:
        dos, base, hash_type, objs = build(rng, scratch)
        if truth(dos, base, hash_type, objs):
            res['breaks'].append({'where': 'the undamaged container is not intact', 'model': '', 'real': str(truth(dos, base, hash_type, objs))[:300],
                                  'theorem_or_correspondence': 'harness', 'case': {'idx': idx}})
            return res
        ok, exc = validates_clean(dos, base)
        if not ok:
            res['failures'].append({'signature': 'false-positive', 'text': f'validate() is not clean on an undamaged container ({exc})',
                                    'replay': {'kind': 'damage', 'idx': idx, 'seed': common.seed(), 'damage': None}})
        work = os.path.join(scratch, 'work')
        for desc, dmg in damages(rng, base, quick):
            shutil.rmtree(work, ignore_errors=True)
            shutil.copytree(base, work)
            apply_damage(work, dmg)
            bad = truth(dos, work, hash_type, objs)
            res['stats']['damages'] += 1
            res['stats']['kinds'][dmg[0]] = res['stats']['kinds'].get(dmg[0], 0) + 1
            if not bad:
                res['stats']['harmless'] += 1  # e.g. a padding bit of a deflate stream, an unreferenced byte: outside the property
                continue
            res['stats']['harmful'] += 1
            clean, _ = validates_clean(dos, work)
            if clean:
                res['failures'].append({'signature': f'false-negative-{dmg[0]}', 'text': f'{desc}: {bad[0]} - but validate() returns a clean report',
                                        'replay': {'kind': 'damage', 'idx': idx, 'seed': common.seed(), 'damage': list(dmg)}})
                if len(res['failures']) > 3:
                    break
        res['sample'] = {'hash_type': hash_type, 'objects': len(objs), 'damages': res['stats']['damages'], 'harmful': res['stats']['harmful']}
    except Exception as exc:  # pylint: disable=broad-except
        import traceback  # pylint: disable=import-outside-toplevel

        res['breaks'].append({'where': 'harness exception', 'model': '', 'real': f'{type(exc).__name__}: {exc} {traceback.format_exc()[-600:]}',
                              'theorem_or_correspondence': 'harness', 'case': {'idx': idx}})
    finally:
        common.rmscratch(scratch)
    return res


def _dmg_job(args):
    return damage_case(*args)


def run(tier: str) -> Report:
    rep = run_store('C12', tier, QUICK_HIST, THOROUGH_HIST)
    n = QUICK_DMG if tier == 'quick' else THOROUGH_DMG
    ctx = mp.get_context('fork')
    with ctx.Pool(processes=min(14, os.cpu_count() or 4)) as pool:
        results = pool.map(_dmg_job, [(i, tier == 'quick') for i in range(n)], chunksize=1)
    for r in results:
        rep.failures += r['failures'][:2]
        rep.breaks += r['breaks'][:2]
        rep.evaluations += r['stats']['damages']
        rep.distinct_nontrivial += r['stats']['harmful']
        for k in ('damages', 'harmful', 'harmless'):
            rep.stats['damage.' + k] = rep.stats.get('damage.' + k, 0) + r['stats'][k]
        for k, v in r['stats']['kinds'].items():
            rep.stats['damage.kind.' + k] = rep.stats.get('damage.kind.' + k, 0) + v
        if r.get('sample') and sum(1 for s in rep.samples if 'damages' in s) < 1:
            rep.samples.append(r['sample'])
    rep.rule += ('; plus damage enumeration: every bit position (one random bit) and truncation length of every loose and pack file of small '
                 'multi-pack containers, and 8 perturbations of every index row; a damage counts as non-trivial when the ground truth says some '
                 'object is unreadable / different / of another size (harmless damages - e.g. unreferenced or padding bits - are counted separately)')
    return rep


def replay(path: str) -> int:
    doc = json.loads(open(path).read())
    rp = doc.get('replay') or {}
    if rp.get('kind') != 'damage':
        from ._store import replay_store  # pylint: disable=import-outside-toplevel

        return replay_store('C12', path)
    os.environ['VERIF_SEED'] = str(rp.get('seed', 0))
    common.build_lean()
    r = damage_case(rp['idx'])
    for f in r['failures']:
        print('FAIL', f['text'])
    if r['failures']:
        print(f'VIOLATION property=C12 replay={path}')
        return 1
    return 0
