"""C18: bounded resources - no descriptor leaks, one open file, chunked I/O.

Lean side (lean/Dos/Fd.lean, Dos/Proofs/FdProofs.lean): descriptor accounting over the Level-C action lists (every program is
balanced, holds at most two descriptors at any point however many objects/packs it writes, and the finally-handlers release
everything after a fault) and the chunk-loop theorem (every piece moved by a streaming loop is at most the chunk size).
Here, on the implementation:
  A  histories with a /proc/self/fd census after every operation and after close (descriptors inside the container folder),
     and the model's action lists compared with the traced I/O (so that the accounting theorems speak about the real calls);
  B  bulk reads: at most one pack / loose file open at any I/O call; lazily opened inputs open only while consumed;
     a stale reader that re-loosens an object through the fallback path must not keep the loose file open;
  C  streaming paths on large objects: size of every read()/write() issued on files of the container <= 512 KiB, and the
     tracemalloc peak must not grow with the object size (measured, not proved: runtime behaviour the model does not contain)."""
from __future__ import annotations

import io
import json
import multiprocessing as mp
import os
import tracemalloc

from .. import common, iotrace, store, store_check
from ..content import Pool, gen_content
from ..main import Report

CHUNK_LIMIT = 524288
QUICK = {'A': 40, 'B': 24, 'C': 6, 'I': 110, 'W': 12}
THOROUGH = {'A': 500, 'B': 300, 'C': 40, 'I': 400, 'W': 150}


def fds_under(folder: str):
    """open descriptors of this process that point inside `folder`: (data files, sqlite files)"""
    data, sql = [], []
    root = os.path.realpath(folder)
    for fd in os.listdir('/proc/self/fd'):
        try:
            tgt = os.readlink(f'/proc/self/fd/{fd}')
        except OSError:
            continue
        tgt = tgt.replace(' (deleted)', '')
        if tgt == root or tgt.startswith(root + os.sep):
            rel = tgt[len(root) + 1:]
            (sql if rel.startswith('packs.idx') else data).append(rel)
    return data, sql


def case_A(idx: int):
    """history with a census after every step"""
    res = {'kind': 'A', 'idx': idx, 'failures': [], 'breaks': [], 'stats': {}, 'sample': None}
    orig_apply = store.Runner.apply
    census = []

    def apply(self, op):
        orig_apply(self, op)
        rc = self.conts[op.get('on', 'a')]
        data, sql = fds_under(rc.folder)
        census.append((op['op'], len(data), len(sql)))
        if data:
            self._fail('C18', f'fd-left-open-{op["op"]}', f'after {op["op"]} the process still holds {data[:3]} open inside the container folder')
    store.Runner.apply = apply
    orig_init = store.Runner.__init__

    def init(self, *a, **k):
        orig_init(self, *a, **k)
        self.check_trace = True
        self.check_views = False
    store.Runner.__init__ = init
    try:
        r = store_check.run_case('C18', 'general', idx)
    finally:
        store.Runner.apply = orig_apply
        store.Runner.__init__ = orig_init
    if r.error:
        res['breaks'].append({'where': 'harness exception', 'model': '', 'real': r.error[:500], 'theorem_or_correspondence': 'harness', 'case': {'idx': idx}})
    for f in r.failures:
        if f[1] == 'C18':
            res['failures'].append({'signature': f[2], 'text': f[3], 'replay': {'kind': 'A', 'idx': idx, 'seed': common.seed()}})
    for d in r.diffs:
        if d[1] == 'trace':
            res['breaks'].append({'where': f'I/O trace of {d[4]} (step {d[0]})', 'model': str(d[2])[:300], 'real': str(d[3])[:300],
                                  'theorem_or_correspondence': 'Dos.IO action list (on which Dos.Fd counts descriptors) vs traced I/O', 'case': {'idx': idx}})
            break
    sql_counts = [c[2] for c in census]
    if sql_counts and max(sql_counts) > 8 * max(1, len(r.case.get('cfgs', {'a': 1}))):
        res['failures'].append({'signature': 'sqlite-fds-accumulate', 'text': f'{max(sql_counts)} descriptors on the index files after {len(census)} operations',
                                'replay': {'kind': 'A', 'idx': idx, 'seed': common.seed()}})
    # after closing every handle nothing may be left (run_case closes them); the scratch folder is gone by now, so a leak
    # shows as a descriptor on a deleted path
    leaked = [os.readlink(f'/proc/self/fd/{fd}') for fd in os.listdir('/proc/self/fd')
              if os.path.exists(f'/proc/self/fd/{fd}') and 'dosverif-C18' in (os.readlink(f'/proc/self/fd/{fd}') if os.path.islink(f'/proc/self/fd/{fd}') else '')]
    if leaked:
        res['failures'].append({'signature': 'fd-after-close', 'text': f'after closing every handle the process still holds {leaked[:3]}',
                                'replay': {'kind': 'A', 'idx': idx, 'seed': common.seed()}})
    res['stats'] = {'steps': r.steps, 'traces_compared': r.stats.get('traces_compared', 0), 'census': len(census)}
    res['sample'] = {'kind': 'A', 'census': census[:12]}
    return res


def case_B(idx: int):
    """bulk reads keep one file open; lazy inputs open only while consumed; stale reader + re-loosening"""
    dos = common.import_repo()
    from pathlib import Path  # pylint: disable=import-outside-toplevel

    from disk_objectstore.utils import LazyOpener  # pylint: disable=import-outside-toplevel

    rng = common.rng_for('C18', 'B', idx)
    res = {'kind': 'B', 'idx': idx, 'failures': [], 'breaks': [], 'stats': {}, 'sample': None}
    scratch = common.mkscratch('C18')
    rp = {'kind': 'B', 'idx': idx, 'seed': common.seed()}
    try:
        cfg = store.default_cfg(rng, 0.6)
        folder = os.path.join(scratch, 'c')
        c = dos.Container(folder)
        c.init_container(pack_size_target=cfg.target, loose_prefix_len=cfg.prefix_len, hash_type=cfg.hash_type,
                         compression_algorithm=f'zlib+{cfg.level}')
        contents = list({gen_content(rng, rng.choice(['random', 'text', 'zeros']), rng.choice([0, 1, 30, 500, 3000])) for _ in range(8)})
        # lazily opened inputs: at every I/O call of the operation at most one of the input files is open
        in_dir = os.path.join(scratch, 'inputs')
        os.mkdir(in_dir)
        paths = []
        for i, b in enumerate(contents[:5]):
            p = os.path.join(in_dir, f'in{i}')
            with open(p, 'wb') as fh:
                fh.write(b)
            paths.append(p)
        worst = {'inputs': 0, 'data': 0}

        def hook(_i, _ev):
            n_in = 0
            for fd in os.listdir('/proc/self/fd'):
                try:
                    tgt = os.readlink(f'/proc/self/fd/{fd}')
                except OSError:
                    continue
                if tgt.startswith(in_dir + os.sep):
                    n_in += 1
            worst['inputs'] = max(worst['inputs'], n_in)

        with iotrace.Tracer(folder, hook=hook):
            keys_p = c.add_streamed_objects_to_pack([LazyOpener(Path(p)) for p in paths], open_streams=True, compress=rng.random() < 0.5,
                                                    no_holes=rng.random() < 0.5, no_holes_read_twice=rng.random() < 0.5)
        if worst['inputs'] > 1:
            res['failures'].append({'signature': 'lazy-inputs-open', 'text': f'{worst["inputs"]} lazily opened input files were open at the same time', 'replay': rp})
        left = [1 for fd in os.listdir('/proc/self/fd') if os.path.islink(f'/proc/self/fd/{fd}') and os.readlink(f'/proc/self/fd/{fd}').startswith(in_dir + os.sep)]
        if left:
            res['failures'].append({'signature': 'lazy-inputs-left-open', 'text': 'an input stream is still open after the call returned', 'replay': rp})
        keys_l = [c.add_object(b) for b in contents[5:]]
        if rng.random() < 0.5:
            c.pack_all_loose(compress=rng.random() < 0.5)
        # bulk read: at every I/O call at most one pack or loose file is open
        def hook2(_i, _ev):
            data, _ = fds_under(folder)
            worst['data'] = max(worst['data'], len(data))
        allkeys = keys_p + keys_l
        with iotrace.Tracer(folder, hook=hook2):
            with c.get_objects_stream_and_meta(allkeys) as triplets:
                for _k, stream, _m in triplets:
                    data, _ = fds_under(folder)
                    worst['data'] = max(worst['data'], len(data))
                    stream.read(rng.choice([-1, 10]))
        if worst['data'] > 1:
            res['failures'].append({'signature': 'bulk-many-open', 'text': f'{worst["data"]} data files of the container were open at once during a linear bulk read', 'replay': rp})
        # the same with seeks from the end (a compressed object is re-loosened on the way: nested, transient opens are expected)
        with c.get_objects_stream_and_meta(allkeys) as triplets:
            for _k, stream, _m in triplets:
                try:
                    stream.seek(0, 2)
                    stream.seek(0)
                    stream.read(5)
                except Exception:  # pylint: disable=broad-except
                    pass
        data, _ = fds_under(folder)
        if data:
            res['failures'].append({'signature': 'bulk-left-open', 'text': f'after a bulk read {data[:3]} is still open', 'replay': rp})
        # stale reader: pinned snapshot, another handle packs compressed + cleans, the reader seeks from the end
        stale = dos.Container(folder)
        stale.has_objects(['00' * 20])
        fresh_content = gen_content(rng, 'text', 700) + bytes([idx % 251])
        k_new = c.add_object(fresh_content)
        c.pack_all_loose(compress=True)
        c.clean_storage()
        with stale.get_object_stream(k_new) as st:
            st.seek(-3, 2)
            tail = st.read()
        data, _ = fds_under(folder)
        if tail != fresh_content[-3:]:
            res['failures'].append({'signature': 'stale-reader-wrong', 'text': 'stale reader read wrong bytes after seeking from the end', 'replay': rp})
        if data:
            res['failures'].append({'signature': 'lazy-loose-left-open', 'text': f'after the stream context of a re-loosened object was left, {data[:2]} is still open', 'replay': rp})
        stale.close()
        c.close()
        data, sql = fds_under(folder)
        if data or sql:
            res['failures'].append({'signature': 'fd-after-close', 'text': f'after closing every handle: {(data + sql)[:3]} still open', 'replay': rp})
        res['stats'] = {'bulk_reads': 1, 'max_open_during_bulk': worst['data']}
        res['sample'] = {'kind': 'B', 'max_open_during_bulk': worst['data'], 'max_lazy_inputs_open': worst['inputs']}
    except Exception as exc:  # pylint: disable=broad-except
        import traceback  # pylint: disable=import-outside-toplevel

        res['breaks'].append({'where': 'harness exception', 'model': '', 'real': f'{type(exc).__name__}: {exc} {traceback.format_exc()[-600:]}',
                              'theorem_or_correspondence': 'harness', 'case': {'idx': idx}})
    finally:
        common.rmscratch(scratch)
    return res


def _measure(fn):
    tracemalloc.start()
    tracemalloc.reset_peak()
    base = tracemalloc.get_traced_memory()[0]
    fn()
    peak = tracemalloc.get_traced_memory()[1] - base
    tracemalloc.stop()
    return peak


def case_C(idx: int, big_mib: int):
    """streaming paths: chunk sizes of the traced reads/writes, and peak memory against the object size"""
    dos = common.import_repo()
    rng = common.rng_for('C18', 'C', idx)
    res = {'kind': 'C', 'idx': idx, 'failures': [], 'breaks': [], 'stats': {}, 'sample': None}
    scratch = common.mkscratch('C18')
    rp = {'kind': 'C', 'idx': idx, 'seed': common.seed()}
    try:
        kind = ['zeros', 'random', 'mixed'][idx % 3]
        peaks = {}
        maxio = {'read': 0, 'write': 0}
        for size_mib in (big_mib // 4, big_mib):
            size = size_mib * 1024 * 1024 + rng.randint(0, 1000)
            data = gen_content(rng, kind, size)
            folder = os.path.join(scratch, f'c{size_mib}')
            c = dos.Container(folder)
            c.init_container(compression_algorithm=f'zlib+{rng.choice([1, 6])}')
            tr = iotrace.Tracer(folder).install()
            try:
                p = {}
                holder = {}
                p['add_streamed'] = _measure(lambda: holder.__setitem__('k', c.add_streamed_object(io.BytesIO(data))))
                key = holder['k']
                p['pack'] = _measure(lambda: c.pack_all_loose(compress=True))

                def chunked():
                    with c.get_object_stream(key) as st:
                        while st.read(65536):
                            pass
                p['chunked_read'] = _measure(chunked)
                p['validate'] = _measure(c.validate)
                from disk_objectstore.utils import CompressMode  # pylint: disable=import-outside-toplevel

                p['repack_no'] = _measure(lambda: c.repack(compress_mode=CompressMode.NO))
                p['repack_yes'] = _measure(lambda: c.repack(compress_mode=CompressMode.YES))
                c2 = dos.Container(os.path.join(scratch, f'd{size_mib}'))
                c2.init_container(hash_type='sha1')
                p['import'] = _measure(lambda: c2.import_objects([key], c, target_memory_bytes=1000))
                c2.close()
            finally:
                tr.uninstall()
            for ev in tr.events:
                if ev[0] == 'write':
                    maxio['write'] = max(maxio['write'], ev[2])
            for (_path, returned, _req) in tr.reads:
                maxio['read'] = max(maxio['read'], returned)
            c.close()
            peaks[size_mib] = p
            del data
        small, big = peaks[big_mib // 4], peaks[big_mib]
        for op in big:
            growth = big[op] - small[op]
            # 3x more data: a path that buffers the object would grow by ~ (big - small) MiB; allow a fixed 3 MiB of noise
            if growth > 3 * 1024 * 1024 and big[op] > 6 * 1024 * 1024:
                res['failures'].append({'signature': f'memory-grows-{op}', 'text': f'{op} on {kind} data: peak {small[op] // 1024} KiB for {big_mib // 4} MiB but '
                                        f'{big[op] // 1024} KiB for {big_mib} MiB - memory grows with the object size', 'replay': rp})
        if maxio['write'] > CHUNK_LIMIT or maxio['read'] > CHUNK_LIMIT:
            res['failures'].append({'signature': 'chunk-too-large', 'text': f'a single call moved {max(maxio.values())} bytes (> {CHUNK_LIMIT})', 'replay': rp})
        res['stats'] = {'streaming_ops': len(big) * 2}
        res['sample'] = {'kind': 'C', 'data': kind, 'sizes_mib': [big_mib // 4, big_mib], 'peak_kib': {op: [small[op] // 1024, big[op] // 1024] for op in big},
                         'max_read': maxio['read'], 'max_write': maxio['write']}
    except Exception as exc:  # pylint: disable=broad-except
        import traceback  # pylint: disable=import-outside-toplevel

        res['breaks'].append({'where': 'harness exception', 'model': '', 'real': f'{type(exc).__name__}: {exc} {traceback.format_exc()[-600:]}',
                              'theorem_or_correspondence': 'harness', 'case': {'idx': idx}})
    finally:
        common.rmscratch(scratch)
    return res


def case_I(idx: int):
    """imports between two containers: the batches held in memory stay within target_memory_bytes (observed calls vs
    Dos.ImportCache.importCalls, and the budget oracle on the observed batches)"""
    res = {'kind': 'I', 'idx': idx, 'failures': [], 'breaks': [], 'stats': {}, 'sample': None}
    r = store_check.run_case('C18', 'import', idx)
    if r.error:
        res['breaks'].append({'where': 'harness exception', 'model': '', 'real': r.error[:500], 'theorem_or_correspondence': 'harness', 'case': {'idx': idx}})
    for f in r.failures:
        if f[1] == 'C18':
            res['failures'].append({'signature': f[2], 'text': f[3], 'replay': {'kind': 'I', 'idx': idx, 'seed': common.seed()}})
            break
    for d in r.diffs:
        if d[1] == 'calls':
            res['breaks'].append({'where': f'direct-to-pack calls of import (step {d[0]})', 'model': str(d[2])[:300], 'real': str(d[3])[:300],
                                  'theorem_or_correspondence': 'Dos.ImportCache.importCalls (importCalls_bounded) vs the calls import_objects makes',
                                  'case': {'idx': idx}})
            break
    res['stats'] = {'import_calls_compared': r.stats.get('import_calls_compared', 0)}
    return res


def case_W(idx: int):
    """handles used as context managers (`with Container(...) as c:`), incl. the handle that initialises the container, and
    handles that are simply dropped: after the block / after collection no descriptor inside the folder is left"""
    import gc  # pylint: disable=import-outside-toplevel

    dos = common.import_repo()
    rng = common.rng_for('C18', 'W', idx)
    res = {'kind': 'W', 'idx': idx, 'failures': [], 'breaks': [], 'stats': {'with_blocks': 0}, 'sample': None}
    scratch = common.mkscratch('C18')
    try:
        folder = os.path.join(scratch, 'c')
        rounds = rng.randint(2, 4)
        for rnd in range(rounds):
            with dos.Container(folder) as c:
                if rnd == 0:
                    c.init_container(pack_size_target=rng.choice([4 * 1024 ** 3, 200]), loose_prefix_len=rng.choice([0, 2]))
                for _ in range(rng.randint(1, 6)):
                    x = rng.random()
                    if x < 0.35:
                        c.add_object(rng.randbytes(rng.randint(0, 300)))
                    elif x < 0.55:
                        c.add_objects_to_pack([rng.randbytes(rng.randint(1, 200)) for _ in range(rng.randint(1, 3))], compress=rng.random() < 0.5)
                    elif x < 0.7:
                        c.pack_all_loose()
                    elif x < 0.8:
                        c.clean_storage()
                    elif x < 0.9:
                        list(c.list_all_objects())
                    else:
                        c.count_objects()
                        c.get_total_size()
            res['stats']['with_blocks'] += 1
            data, sql = fds_under(folder)
            if data or sql:
                res['failures'].append({'signature': 'fd-after-with', 'text': f'after leaving `with Container(...)` (block {rnd}{", which initialised the container" if rnd == 0 else ""}) '
                                                                              f'the process still holds {(data + sql)[:4]} open inside the container folder',
                                        'replay': {'kind': 'W', 'idx': idx, 'seed': common.seed()}})
                break
        # a handle that is dropped without close()
        c2 = dos.Container(folder)
        c2.count_objects()
        list(c2.list_all_objects())
        del c2
        gc.collect()
        data, sql = fds_under(folder)
        if data or sql:
            res['failures'].append({'signature': 'fd-after-del', 'text': f'after dropping a handle (del + gc) the process still holds {(data + sql)[:4]} open inside the container folder',
                                    'replay': {'kind': 'W', 'idx': idx, 'seed': common.seed()}})
    finally:
        common.rmscratch(scratch)
    return res


def _work(job):
    kind, idx, arg = job
    try:
        if kind == 'W':
            return case_W(idx)
        if kind == 'I':
            return case_I(idx)
        if kind == 'A':
            return case_A(idx)
        if kind == 'B':
            return case_B(idx)
        return case_C(idx, arg)
    except common.Infra as exc:
        return {'kind': kind, 'idx': idx, 'infra': str(exc), 'failures': [], 'breaks': [], 'stats': {}, 'sample': None}


def run(tier: str) -> Report:
    rep = Report('C18')
    plan = QUICK if tier == 'quick' else THOROUGH
    big = 12 if tier == 'quick' else 40
    jobs = ([('C', i, big) for i in range(plan['C'])] + [('A', i, 0) for i in range(plan['A'])] + [('B', i, 0) for i in range(plan['B'])]
            + [('I', i, 0) for i in range(plan['I'])] + [('W', i, 0) for i in range(plan['W'])])
    ctx = mp.get_context('fork')
    with ctx.Pool(processes=min(12, os.cpu_count() or 4)) as pool:
        results = pool.map(_work, jobs, chunksize=1)
    for r in results:
        rep.evaluations += 1
        if r.get('infra'):
            rep.infra.append(r['infra'])
        rep.failures += r['failures'][:3]
        rep.breaks += r['breaks'][:2]
        for k, v in r.get('stats', {}).items():
            rep.stats[k] = rep.stats.get(k, 0) + v if k != 'max_open_during_bulk' else max(rep.stats.get(k, 0), v)
        if r.get('sample') and sum(1 for s in rep.samples if s.get('kind') == r['sample'].get('kind')) < 1:
            rep.samples.append(r['sample'])
    rep.traces_validated = rep.stats.get('traces_compared', 0)
    rep.distinct_nontrivial = rep.evaluations
    rep.rule = ('A: seeded histories with a /proc/self/fd census after every operation and after close, and traced I/O compared with the model '
                'action lists; B: lazily opened inputs, bulk reads and a stale re-loosening reader with the census taken at every I/O call; C: '
                'streaming paths (add streamed, pack, chunked read, validate, repack, import) on objects of two sizes with every read/write size '
                'recorded and the tracemalloc peak compared between the sizes')
    rep.assumptions = ['peak memory is measured (tracemalloc), not proved: the theorems bound the size of every piece a loop moves, not the allocator',
                       'descriptors are observed through /proc/self/fd']
    return rep


def replay(path: str) -> int:
    doc = json.loads(open(path).read())
    rp = doc.get('replay') or {}
    os.environ['VERIF_SEED'] = str(rp.get('seed', 0))
    common.build_lean()
    kind = rp.get('kind')
    r = case_A(rp['idx']) if kind == 'A' else case_B(rp['idx']) if kind == 'B' else case_C(rp['idx'], 12) if kind == 'C' else case_I(rp['idx']) if kind == 'I' else case_W(rp['idx']) if kind == 'W' else None
    if r is None:
        print('nothing to replay')
        return 2
    for f in r['failures']:
        print('FAIL', f['text'])
    if r['failures']:
        print(f'VIOLATION property=C18 replay={path}')
        return 1
    return 0
