"""C17: an I/O error in the middle of an operation leaves the store intact.

Lean side (lean/Dos/IO.lean, Dos/Proofs/IO*.lean): every operation is an action list; `AllSafe` (crash image, power-loss
image, single fault with the finally-handlers) is proved for every state satisfying the invariant, every parameter and
every cut point.  This module ties the action lists and the three images to the code (harness/crashlab.py):
the real I/O trace must be the model's action list; at every I/O boundary the folder left behind by a killed / power-cut /
faulted process must be the model's image; and the direct oracle (fresh handle, raw reader) examines every such folder."""
from __future__ import annotations

import json
import multiprocessing as mp
import os

from .. import common, crashlab
from ..main import Report

PROP = 'C17'
PARTS = ('fault',)
QUICK = (30, 22)
THOROUGH = (600, 400)


def run(tier: str) -> Report:
    rep = Report(PROP)
    ncases, max_points = QUICK if tier == 'quick' else THOROUGH
    jobs = [(PROP, i, PARTS, max_points) for i in range(ncases)]
    # a second family: imports from another container with small pack targets and cache budgets that force several flushes
    jobs += [(PROP, i, PARTS, max_points, 'read') for i in range(6 if tier == 'quick' else ncases // 4)]
    jobs += [(PROP, i, PARTS, max_points, 'noholes') for i in range(6 if tier == 'quick' else ncases // 4)]
    jobs += [(PROP, i, PARTS, max_points, 'delete') for i in range(5 if tier == 'quick' else ncases // 6)]
    jobs += [(PROP, i, PARTS, max_points, 'packall') for i in range(5 if tier == 'quick' else ncases // 4)]
    jobs += [(PROP, i, PARTS, max_points, 'import') for i in range(8 if tier == 'quick' else ncases // 3)]
    ctx = mp.get_context('fork')
    with ctx.Pool(processes=min(14, os.cpu_count() or 4)) as pool:
        results = pool.map(crashlab.run_lab, jobs, chunksize=1)
    points = 0
    for r in results:
        if r.get('infra'):
            rep.infra.append(r['infra'])
        rep.failures += r['failures']
        rep.breaks += r['breaks']
        for k, v in r['stats'].items():
            rep.stats[k] = rep.stats.get(k, 0) + v
        if r.get('sample') and len(rep.samples) < 3:
            rep.samples.append(r['sample'])
    points = rep.stats.get('crash_points', 0) + rep.stats.get('fault_points', 0)
    rep.evaluations = points
    rep.distinct_nontrivial = points
    rep.traces_validated = rep.stats.get('traces_compared', 0) + rep.stats.get('crash_images_compared', 0) + \
        rep.stats.get('power_images_compared', 0) + rep.stats.get('fault_images_compared', 0)
    rep.rule = ('seeded scenarios (a history of 2-9 operations, then one target operation among add loose / add to pack / pack all loose / '
                'clean / delete / repack one pack, all parameter variants); the target is executed once per I/O boundary in a forked child that '
                'is killed / power-cut / faulted exactly there; every boundary is a distinct case')
    rep.assumptions = [
        'kill = os._exit in the child at the boundary (user-space buffers lost); power loss = every regular file cut back to its size at its last fsync, '
        'directory entries and committed SQLite transactions kept (the storage model stated by C06)',
        'SQLite commits are atomic and durable; rename/link/unlink are atomic',
        'a fault is injected before the call executes (no partial effect of the failing call itself)',
    ]
    return rep


def replay(path: str) -> int:
    doc = json.loads(open(path).read())
    rp = doc.get('replay') or {}
    if rp.get('kind') != 'lab':
        print('nothing to replay: see the file for the theorem / correspondence that no longer checks')
        return 2
    os.environ['VERIF_SEED'] = str(rp.get('seed', 0))
    common.build_lean()
    r = crashlab.run_lab((PROP, rp['case_id'], tuple(rp.get('parts', PARTS)), 100000, rp.get('focus', '')))
    for f in r['failures']:
        print('FAIL', f['text'])
    for b in r['breaks']:
        print('BREAK', b)
    if r['failures']:
        print(f'VIOLATION property={PROP} replay={path}')
        return 1
    return 0
