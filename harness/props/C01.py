"""C01: decided on operation histories (see DESIGN.md section 7 for what is compared and proved)."""
from ._store import replay_store, run_store

QUICK = [('roundtrip', 60), ('roundtrip_big', 14)]
THOROUGH = [('roundtrip', 500), ('roundtrip_big', 160)]


def run(tier: str):
    return run_store('C01', tier, QUICK, THOROUGH)


def replay(path: str) -> int:
    return replay_store('C01', path)
