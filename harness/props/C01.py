"""C01: decided on operation histories (see DESIGN.md section 7 for what is compared and proved)."""
from . import _multi
from ._store import replay_store, run_store

QUICK = [('roundtrip', 60), ('roundtrip_big', 14)]
THOROUGH = [('roundtrip', 500), ('roundtrip_big', 160)]


def run(tier: str):
    rep = run_store('C01', tier, QUICK, THOROUGH)
    # reads through the slow path of a long-open handle (the third read entry point)
    rep.failures += _multi.stale_handle_failures('C01', 30 if tier == 'quick' else 400, ('get-wrong', 'bulk-stale', 'bulkseek-wrong', 'add-key'), rep)
    return rep


def replay(path: str) -> int:
    r_ = _multi.replay_multi('C01', path)
    return r_ if r_ is not None else replay_store('C01', path)
