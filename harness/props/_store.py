"""Common driver for the properties decided on operation histories (Level-B model vs real Container)."""
from __future__ import annotations

import json

from .. import bigstore, common, store_check
from ..main import Report

ASSUMPTIONS = [
    'Lean model of the container (lean/Dos/Store.lean) is hand-written: container.py/utils.py are modelled, not verified; '
    'the tie is this correspondence run against the current working tree of /repo',
    'hashlib digests are collision-free on the generated contents (the library\'s own assumption); keys are identified with content ids',
    'zlib: decompress(compressobj(level) output) = input; the stream produced under 64 KiB feeding is deterministic',
    'SQLite: rowid = max+1, unique index honoured, ORDER BY ties in rowid order',
    'observed choices (set iteration order, AUTO verdicts) are passed to the model, which checks that they are admissible',
]


BIG_PROPS = {'C01', 'C02', 'C03', 'C09', 'C10', 'C11', 'C12', 'C16'}


def run_store(prop: str, tier: str, quick: list, thorough: list, runner_flags: dict | None = None) -> Report:
    rep = Report(prop)
    plan = quick if tier == 'quick' else thorough
    if runner_flags:
        store_check.RUNNER_FLAGS.update(runner_flags)
    results = store_check.run_many(prop, plan)
    digests = set()
    nontrivial = set()
    for r in results:
        rep.evaluations += 1
        if r.error:
            if r.error.startswith('INFRA'):
                rep.infra.append(r.error)
            else:
                rep.breaks.append({'where': 'harness-exception', 'model': '', 'real': r.error[:600], 'case': r.case})
            continue
        rep.traces_validated += r.steps
        for k, v in r.stats.items():
            rep.stats[k] = rep.stats.get(k, 0) + v
        d = store_check.trace_digest(r)
        digests.add(d)
        if len({op['op'] for op in r.trace}) >= 3 and r.steps >= 4:
            nontrivial.add(d)
        diffs, fails = store_check.relevant(prop, r)
        if fails:
            step, _, sig, text = fails[0]
            ops = r.trace[:step]
            try:
                def pred(rr, sig=sig):
                    return any(f[1] == prop and f[2] == sig for f in rr.failures)
                cut = store_check.CaseResult(case=r.case, trace=ops)
                ops = store_check.shrink(prop, cut, pred)
            except Exception:  # pylint: disable=broad-except
                pass
            rep.failures.append({'signature': f'{sig}', 'text': text,
                                 'replay': {'kind': 'store', 'prop': prop, 'profile': r.case['profile'], 'case_id': r.case['case_id'],
                                            'seed': common.seed(), 'cfgs': r.case.get('cfgs'), 'pool': r.case.get('pool'), 'ops': ops}})
        elif diffs:
            step, layer, model, real, opk = diffs[0]
            rep.breaks.append({'where': f'{layer} after {opk} (step {step})', 'model': str(model)[:500], 'real': str(real)[:500],
                               'theorem_or_correspondence': f'Level-B model vs Container, layer {layer}',
                               'case': {'profile': r.case['profile'], 'case_id': r.case['case_id'], 'cfgs': r.case.get('cfgs'),
                                        'ops': r.trace[:step]}})
        if len(rep.samples) < 3 and r.steps >= 5:
            rep.samples.append({'profile': r.case['profile'], 'case_id': r.case['case_id'], 'cfgs': r.case.get('cfgs'),
                                'ops': [{k: v for k, v in op.items() if k != 'model_line'} for op in r.trace[:12]]})
    if prop in BIG_PROPS:
        # large containers with the library's real batch sizes (direct oracles only; see harness/bigstore.py)
        rep.failures += bigstore.failures_for(prop, 6 if tier == 'quick' else 90, rep)
    rep.distinct_nontrivial = len(nontrivial)
    rep.extra['distinct_histories'] = len(digests)
    rep.rule = ('seeded operation histories (profiles ' + ', '.join(f'{p}x{n}' for p, n in plan) + ') run step by step on the real '
                'Container and on the Lean model; a case counts as distinct+non-trivial when its operation/choice sequence has a '
                'unique digest, at least 4 steps and at least 3 different operation kinds'
                + ('; plus large containers (1 150 - 10 100 objects) with the real batch sizes, direct oracles only' if prop in BIG_PROPS else ''))
    rep.assumptions = ASSUMPTIONS
    return rep


def replay_store(prop: str, path: str) -> int:
    r_big = bigstore.replay_big(prop, path)
    if r_big is not None:
        return r_big
    doc = json.loads(open(path).read())
    rp = doc.get('replay') or {}
    if rp.get('kind') != 'store':
        print('not a store replay; see the file for the theorem/correspondence that no longer checks')
        return 2
    import os  # pylint: disable=import-outside-toplevel

    os.environ['VERIF_SEED'] = str(rp.get('seed', 0))
    ok, _ = common.build_lean()
    r = store_check.run_case(prop, rp['profile'], rp['case_id'], ops=rp['ops'])
    diffs, fails = store_check.relevant(prop, r)
    for f in fails:
        print('FAIL', f)
    for d in diffs:
        print('DIFF', d)
    if r.error:
        print(r.error)
    if fails:
        print(f'VIOLATION property={prop} replay={path}')
        return 1
    return 0
