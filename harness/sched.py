"""Deterministic cooperative scheduler: several actors (threads, each with its own Container on one folder) run one
at a time; control returns to the scheduler at every traced I/O event (file-system call or SQL statement), so an
interleaving is a list of actor ids and can be replayed exactly."""
from __future__ import annotations

import threading
import traceback

from . import iotrace


class Actor:
    def __init__(self, name: str, fn):
        self.name = name
        self.fn = fn
        self.sem = threading.Semaphore(0)
        self.done = False
        self.result = None
        self.error = None
        self.thread = None
        self.events = 0


class Scheduler:
    """policy(step, runnable_names, last_event) -> name of the actor to run next"""

    def __init__(self, folder: str, policy, max_steps: int = 20000):
        self.folder = folder
        self.policy = policy
        self.max_steps = max_steps
        self.actors: dict[str, Actor] = {}
        self.main = threading.Semaphore(0)
        self.by_thread: dict[int, Actor] = {}
        self.log: list = []  # (actor, event)
        self.schedule: list[str] = []
        self.tracer = None
        self.current = None
        self.last_event = None

    def add(self, name, fn):
        self.actors[name] = Actor(name, fn)

    # called from actor threads, before the traced call executes
    def hook(self, idx, ev):
        actor = self.by_thread.get(threading.get_ident())
        if actor is None:
            return
        actor.events += 1
        self.log.append((actor.name, ev))
        self.last_event = (actor.name, ev)
        self.main.release()
        actor.sem.acquire()

    def note(self, ev):
        """an actor-level event that is not an I/O call (e.g. the acknowledgement of an addition)"""
        actor = self.by_thread.get(threading.get_ident())
        if actor is not None:
            self.log.append((actor.name, ev))

    def _body(self, actor: Actor):
        self.by_thread[threading.get_ident()] = actor
        actor.sem.acquire()
        try:
            actor.result = actor.fn(self)
        except BaseException as exc:  # pylint: disable=broad-except
            actor.error = f'{type(exc).__name__}: {exc}'
            actor.tb = traceback.format_exc()[-1200:]
        actor.done = True
        self.main.release()

    def run(self):
        self.tracer = iotrace.Tracer(self.folder, hook=self.hook)
        self.tracer.trace_select = True
        self.tracer.trace_stat = True
        self.tracer.install()
        try:
            for a in self.actors.values():
                a.thread = threading.Thread(target=self._body, args=(a,), daemon=True)
                a.thread.start()
            steps = 0
            while True:
                runnable = [n for n, a in self.actors.items() if not a.done]
                if not runnable:
                    break
                steps += 1
                if steps > self.max_steps:
                    raise RuntimeError('scheduler: too many steps')
                name = self.policy(steps, runnable, self.last_event, self)
                if name not in runnable:
                    name = runnable[0]
                self.schedule.append(name)
                self.current = name
                self.actors[name].sem.release()
                if not self.main.acquire(timeout=120):
                    raise RuntimeError(f'scheduler: actor {name} did not come back (deadlock?)')
        finally:
            self.tracer.uninstall()
        return self


def policy_random(rng, weights=None):
    def pol(step, runnable, last, sched):
        if weights:
            ws = [weights.get(n.split(':')[0], 1.0) for n in runnable]
            return rng.choices(runnable, weights=ws)[0]
        return rng.choice(runnable)
    return pol


def policy_replay(schedule):
    it = iter(schedule)

    def pol(step, runnable, last, sched):
        try:
            return next(it)
        except StopIteration:
            return runnable[0]
    return pol


def policy_preempt_at(main_actor: str, at_event: int, then: list[str]):
    """run `main_actor` until it has issued `at_event` events, then run the actors of `then` to completion one after the
    other, then the rest in order"""
    def pol(step, runnable, last, sched):
        a = sched.actors[main_actor]
        if not a.done and a.events < at_event and main_actor in runnable:
            return main_actor
        for n in then:
            if n in runnable:
                return n
        return runnable[0]
    return pol
