"""C16 helpers: detect_where_sorted / merge_sorted / chunk_iterator of the implementation against the Lean model
(exact outputs, error included) and against set algebra (the direct oracle)."""
from __future__ import annotations

import itertools

from . import common

LOC = {-1: 'L', 0: 'B', 1: 'R'}


def real_detect(utils, left, right):
    items = []
    err = 'none'
    try:
        for item, where in utils.detect_where_sorted(list(left), list(right)):
            items.append(f'{item}{LOC[where.value]}')
    except ValueError as exc:
        err = 'left' if 'left iterator' in str(exc) else 'right'
    return f"items={','.join(items) if items else '-'} err={err}"


def show(l):
    return ','.join(str(x) for x in l) if l else '-'


def oracle_sorted(utils, left, right):
    """for strictly sorted inputs: each element once, correctly tagged, in order"""
    out = list(utils.detect_where_sorted(list(left), list(right)))
    L, R = set(left), set(right)
    want = []
    for x in sorted(L | R):
        want.append((x, -1 if x not in R else (1 if x not in L else 0)))
    got = [(i, w.value) for i, w in out]
    if got != want:
        return f'detect_where_sorted({left}, {right}) yielded {got}, set algebra says {want}'
    merged = list(utils.merge_sorted(list(left), list(right)))
    if merged != sorted(L | R):
        return f'merge_sorted({left}, {right}) = {merged}'
    return None


def all_lists(universe, maxlen):
    for n in range(maxlen + 1):
        yield from itertools.product(universe, repeat=n)


def run_helpers(tier: str, rep):
    common.import_repo()
    from disk_objectstore import utils  # pylint: disable=import-outside-toplevel

    uni, maxlen = ((0, 1, 2, 3), 3) if tier == 'quick' else ((0, 1, 2, 3, 4), 4)
    lists = list(all_lists(uni, maxlen))
    n = 0
    errs = 0
    with common.Driver() as drv:
        for l in lists:
            for r in lists:
                real = real_detect(utils, l, r)
                model = drv.ask(f'merge detect {show(l)} {show(r)}')
                n += 1
                if 'err=none' not in real:
                    errs += 1
                if real != model:
                    rep.breaks.append({'where': 'detect_where_sorted', 'model': model, 'real': real,
                                       'theorem_or_correspondence': 'Dos.Merge.detect vs utils.detect_where_sorted', 'case': {'left': l, 'right': r}})
                    if len(rep.breaks) > 5:
                        break
                sl = all(a < b for a, b in zip(l, l[1:]))
                sr = all(a < b for a, b in zip(r, r[1:]))
                if sl and sr:
                    p = oracle_sorted(utils, l, r)
                    if p:
                        rep.failures.append({'signature': 'merge-helper-classification', 'text': p, 'replay': {'kind': 'merge', 'left': l, 'right': r}})
                elif 'err=none' in real:
                    rep.failures.append({'signature': 'merge-helper-accepts-unsorted', 'text': f'detect_where_sorted accepted unsorted input {l} / {r}',
                                         'replay': {'kind': 'merge', 'left': l, 'right': r}})
        # random longer inputs and chunk_iterator
        rng = common.rng_for('C16', 'helpers')
        for i in range(300 if tier == 'quick' else 3000):
            k = rng.randint(0, 40)
            pool = list(range(60))
            l = sorted(rng.sample(pool, rng.randint(0, k)))
            r = sorted(rng.sample(pool, rng.randint(0, k)))
            if rng.random() < 0.25 and len(l) > 1:
                j = rng.randrange(len(l) - 1)
                l[j + 1] = l[j] if rng.random() < 0.5 else max(0, l[j] - 1)
            if rng.random() < 0.25 and len(r) > 1:
                j = rng.randrange(len(r) - 1)
                r[j + 1] = r[j] if rng.random() < 0.5 else max(0, r[j] - 1)
            real = real_detect(utils, l, r)
            model = drv.ask(f'merge detect {show(l)} {show(r)}')
            n += 1
            if real != model:
                rep.breaks.append({'where': 'detect_where_sorted', 'model': model[:300], 'real': real[:300],
                                   'theorem_or_correspondence': 'Dos.Merge.detect vs utils.detect_where_sorted', 'case': {'left': l, 'right': r}})
            size = rng.randint(1, 9)
            seq = [rng.randrange(100) for _ in range(rng.randint(0, 30))]
            realc = '|'.join(show(c) for c in utils.chunk_iterator(seq, size))
            modelc = drv.ask(f'merge chunks {size} {show(seq)}')
            n += 1
            if realc != modelc:
                rep.breaks.append({'where': 'chunk_iterator', 'model': modelc[:300], 'real': realc[:300],
                                   'theorem_or_correspondence': 'Dos.Merge.chunkIter vs utils.chunk_iterator', 'case': {'size': size, 'seq': seq}})
            if [x for c in utils.chunk_iterator(seq, size) for x in c] != seq or any(len(c) > size or len(c) == 0 for c in utils.chunk_iterator(seq, size)):
                rep.failures.append({'signature': 'chunk-iterator-partition', 'text': f'chunk_iterator({seq}, {size}) is not a partition into chunks of at most {size}',
                                     'replay': {'kind': 'chunks', 'seq': seq, 'size': size}})
    rep.evaluations += n
    rep.traces_validated += n
    rep.stats['helper_cases'] = n
    rep.stats['helper_error_cases'] = errs
    rep.extra['helper_universe'] = {'universe': len(uni), 'maxlen': maxlen, 'pairs': len(lists) ** 2, 'exhaustive': True}
