#!/venv/bin/python
"""Stand-in for the rsync executable (passed to BackupManager as rsync_exe): runs the real rsync, but for the phase named in
the plan it copies in two passes and lets another client of the container work in between, so that concurrent steps fall
INSIDE a copy phase of the backup.  The plan is a JSON file named by DOS_VERIF_RSYNC_PLAN."""
import json
import os
import subprocess
import sys

REAL = os.environ.get('DOS_VERIF_REAL_RSYNC', '/usr/bin/rsync')


def main():
    args = sys.argv[1:]
    plan_path = os.environ.get('DOS_VERIF_RSYNC_PLAN')
    if '--version' in args or not plan_path or not os.path.exists(plan_path):
        return subprocess.call([REAL] + args)
    plan = json.load(open(plan_path))
    src = next((a for a in args if not a.startswith('-') and os.path.exists(a.rstrip('/'))), None)
    phase = None
    if src is not None:
        base = os.path.basename(src.rstrip('/'))
        if base in ('loose', 'packs'):
            phase = base
    todo = plan.get('mid', {}).get(phase)
    if not todo or todo.get('done'):
        return subprocess.call([REAL] + args)
    # pass 1: only the names selected for the first half
    first = todo.get('first_half', [])
    inc = []
    for name in first:
        inc += ['--include', f'/{phase}/{name}', '--include', f'/{phase}/{name}/**']
    rc = subprocess.call([REAL] + inc + ['--include', f'/{phase}/', '--exclude', '*'] + args)
    if rc != 0:
        return rc
    # the other client works now
    sys.path.insert(0, plan['repo'])
    import disk_objectstore  # pylint: disable=import-outside-toplevel

    c = disk_objectstore.Container(plan['container'])
    try:
        for op in todo['ops']:
            if op['op'] == 'add':
                c.add_object(bytes.fromhex(op['data']))
            elif op['op'] == 'addpack':
                c.add_objects_to_pack([bytes.fromhex(x) for x in op['datas']], compress=op.get('compress', False))
            elif op['op'] == 'pack':
                c.pack_all_loose(compress=op.get('compress', False), clean_loose_per_pack=op.get('clean', False))
            elif op['op'] == 'clean':
                c.clean_storage()
    finally:
        c.close()
    todo['done'] = True
    json.dump(plan, open(plan_path, 'w'))
    # pass 2: everything
    return subprocess.call([REAL] + args)


if __name__ == '__main__':
    sys.exit(main())
