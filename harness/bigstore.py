"""Large containers with the library's REAL internal thresholds (IN-lists of 950, full scan above 9 500 keys, listings and
the known-keys scan paged by 1 000 primary keys): histories whose requests and index-id gaps straddle them.

No Lean model runs here (a 10 000-row index is outside what the line protocol is for): these are searches for a failing
input with the direct oracles of the properties - a Python dict as the plain map, `rawstate` for what is on disk.  The
theorems that say why batch sizes cannot matter are `Dos.Merge.bulkFind_spec`, `chunkIter_spec`, `detect_spec`; the small
histories with lowered thresholds tie them to the code; this module looks at the places where the constants themselves are
written into the code.

Every failure is tagged with the properties whose statement it contradicts; a property's check keeps its own."""
from __future__ import annotations

import hashlib
import os
import zlib

from . import common
from .rawstate import Raw


def _content(i: int, salt: int) -> bytes:
    if i % 97 == 0:
        return b'' if i == 0 else b'z' * (i % 300)            # the empty object and very compressible ones
    if i % 11 == 0:
        return (b'line %d of %d\n' % (i, salt)) * (3 + i % 7)  # compressible
    return b'o%d-%d' % (i, salt)                              # tiny, distinct


def run_case(case_id: int, prop: str = ''):
    dos = common.import_repo()
    rng = common.rng_for('bigstore', case_id)
    res = {'case_id': case_id, 'failures': [], 'stats': {}, 'steps': 0}
    scratch = common.mkscratch('big')
    handles = []

    def fail(props, sig, text):
        res['failures'].append({'props': props, 'signature': 'big-' + sig, 'text': f'large container (case {case_id}): {text}',
                                'replay': {'kind': 'big', 'case_id': case_id, 'seed': common.seed()}})

    try:
        n = rng.choice([1150, 2300, 2300, 10100])
        hash_type = rng.choice(['sha1', 'sha256'])
        target = rng.choice([4 * 1024 ** 3, 4 * 1024 ** 3, 20000])
        folder = os.path.join(scratch, 'c')
        c = dos.Container(folder)
        c.init_container(hash_type=hash_type, pack_size_target=target, loose_prefix_len=rng.choice([0, 2]), compression_algorithm='zlib+1')
        handles.append(c)
        salt = rng.randrange(10 ** 6)
        contents = [_content(i, salt) for i in range(n)]
        # the empty object (stored length 0: it shares its offset with its successor) at a page boundary of the index in some cases
        boundary = rng.choice([None, 999, 1000, 1999])
        if boundary is not None and boundary < n - 2:
            contents[0], contents[boundary] = contents[boundary], contents[0]
        res['stats']['empty_at'] = -1 if boundary is None else boundary
        digest = lambda b: hashlib.new(hash_type, b).hexdigest()  # noqa: E731
        keys = [digest(b) for b in contents]
        table = {}
        res['stats'].update({'n': n, 'target_small': int(target < 10 ** 6)})

        def check_views(label, handle, probe_missing=True):
            """every view of `handle` against the dict"""
            res['steps'] += 1
            want = set(table)
            req = list(keys)
            rng.shuffle(req)
            req = req + req[:7]  # repetitions
            missing = [digest(b'absent-%d-%d' % (i, salt)) for i in range(5)] if probe_missing else []
            req += missing

            def v_list():
                listed = list(handle.list_all_objects())
                if len(listed) != len(set(listed)):
                    fail(['C02', 'C16', 'C09'], 'list-twice', f'{label}: list_all_objects yields {len(listed) - len(set(listed))} keys more than once')
                if set(listed) != want:
                    fail(['C02', 'C16', 'C08'], 'list', f'{label}: list_all_objects gives {len(set(listed))} keys, the map holds {len(want)} '
                                                        f'({len(want - set(listed))} missing, {len(set(listed) - want)} extra)')

            def v_has():
                hs = handle.has_objects(req)
                bad = [k for k, h in zip(req, hs) if h != (k in table)]
                if bad:
                    fail(['C02', 'C16', 'C08', 'C11'], 'has', f'{label}: has_objects over {len(req)} keys is wrong for {len(bad)} of them '
                                                              f'(e.g. {bad[0][:10]} reported {"present" if bad[0] not in table else "absent"})')

            def v_meta():
                seen = {}
                for hk, meta in handle.get_objects_meta(req, skip_if_missing=False):
                    if hk in seen:
                        fail(['C16', 'C02'], 'meta-twice', f'{label}: get_objects_meta over {len(req)} keys reports key {hk[:10]} more than once')
                        break
                    seen[hk] = meta
                if set(seen) != set(req):
                    fail(['C16', 'C02'], 'meta-keys', f'{label}: get_objects_meta reported {len(seen)} keys for {len(set(req))} distinct requested ones')
                for hk, meta in seen.items():
                    present = meta['type'].value != 'missing'
                    if present != (hk in table):
                        fail(['C02', 'C16', 'C08', 'C11'], 'meta-has', f'{label}: get_objects_meta reports key {hk[:10]} as {meta["type"].value}, '
                                                                       f'the map says {"present" if hk in table else "absent"}')
                        break
                    if present and meta['size'] != len(table[hk]):
                        fail(['C10', 'C01', 'C02'], 'meta-size', f'{label}: bulk metadata (request of {len(req)} keys) reports size {meta["size"]} for an object of '
                                                                 f'{len(table[hk])} bytes (stored length {meta["pack_length"]})')
                        break

            def v_content():
                sub = req if len(req) < 3000 or rng.random() < 0.5 else req[:2500] + missing
                try:
                    got = handle.get_objects_content(sub, skip_if_missing=False)
                except Exception as exc:  # pylint: disable=broad-except
                    fail(['C01', 'C02', 'C16'], 'content-raised', f'{label}: get_objects_content over {len(sub)} keys raised {type(exc).__name__}: {str(exc)[:100]}')
                    got = {}
                for hk, data in got.items():
                    if data != table.get(hk):
                        fail(['C01', 'C02', 'C16', 'C08'], 'content', f'{label}: get_objects_content over {len(sub)} keys gives '
                                                                      f'{"nothing" if data is None else str(len(data)) + " bytes"} for key {hk[:10]}, the map holds '
                                                                      f'{"nothing" if hk not in table else str(len(table[hk])) + " bytes"}')
                        break

            # (the first bulk call through a handle with an old snapshot is the one that takes the slow path: any of them may be first)
            views = [v_list, v_has, v_meta, v_content]
            rng.shuffle(views)
            for v in views:
                v()
            cnt = handle.count_objects()
            if cnt['packed'] + cnt['loose'] < len(want):
                fail(['C02', 'C09'], 'count', f'{label}: count_objects reports {cnt["packed"]}+{cnt["loose"]} objects, the map holds {len(want)}')

        def check_disk(label):
            raw = Raw(folder)
            probs = raw.consistency_problems()
            if probs:
                fail(['C03'], 'raw', f'{label}: {probs[0]}')
            return raw

        def damage_check(label, always=False):
            """one bit flipped in a packed object (on a copy), preferring the neighbours of zero-length objects and of the 1000-row
            pages of the index: validate() must not come back clean"""
            if not (always or prop == 'C12' or rng.random() < 0.5):
                return
            import shutil  # pylint: disable=import-outside-toplevel

            raw = Raw(folder)
            by_pack = {}
            for r in raw.rows:
                by_pack.setdefault(r[2], []).append(r)
            cands = []
            for pk_, rs in by_pack.items():
                rs.sort(key=lambda r: (r[3], r[0]))
                for i_, r in enumerate(rs):
                    if r[4] > 0 and (i_ % 1000 in (0, 1, 999) or (i_ > 0 and rs[i_ - 1][4] == 0)):
                        cands.append(r)
            victims = rng.sample(cands, min(len(cands), 6)) if cands else []
            for v in victims:
                dmg = os.path.join(scratch, 'dmg')
                shutil.rmtree(dmg, ignore_errors=True)
                shutil.copytree(folder, dmg)
                path = os.path.join(dmg, 'packs', str(v[2]))
                with open(path, 'r+b') as fh:
                    fh.seek(v[3] + v[4] // 2)
                    b0 = fh.read(1)
                    fh.seek(v[3] + v[4] // 2)
                    fh.write(bytes([b0[0] ^ 0x10]))
                # is it damage at all?  (a flipped padding bit of a zlib stream changes nothing that is read back)
                try:
                    still = Raw(dmg).recover(v[1]) == table.get(v[1], contents[keys.index(v[1])] if v[1] in keys else None)
                except Exception:  # pylint: disable=broad-except
                    still = False
                if still:
                    res['stats']['damage_harmless'] = res['stats'].get('damage_harmless', 0) + 1
                    shutil.rmtree(dmg, ignore_errors=True)
                    continue
                cd = dos.Container(dmg)
                try:
                    try:
                        clean = cd.validate().is_valid()
                    except Exception:  # pylint: disable=broad-except
                        clean = False
                finally:
                    cd.close()
                shutil.rmtree(dmg, ignore_errors=True)
                if clean:
                    fail(['C12'], 'damage-clean', f'{label}: a bit flipped inside the stored bytes of the object at offset {v[3]} of pack {v[2]} '
                                                  f'({len(by_pack[v[2]])} objects in the pack): validate() returns a clean report')
                    break
            res['stats']['damage_checks'] = res['stats'].get('damage_checks', 0) + len(victims)

        # 1. fill: directly to packs in a few calls, a part as loose objects packed afterwards
        cut = sorted(rng.sample(range(1, n), 2))
        if boundary is not None and n > 2300:
            cut = sorted([rng.randrange(2100, n - 50), rng.randrange(2100, n - 50)])
        first_plain = boundary is not None
        for lo, hi in ((0, cut[0]), (cut[0], cut[1])):
            got = c.add_objects_to_pack(contents[lo:hi], compress=(rng.random() < 0.5) and not (first_plain and lo == 0), no_holes=rng.random() < 0.3,
                                        no_holes_read_twice=rng.random() < 0.5)
            if got != keys[lo:hi]:
                fail(['C01'], 'keys', 'add_objects_to_pack returned wrong keys')
        stale = dos.Container(folder)
        handles.append(stale)
        stale.has_objects(keys[:3])  # pins a snapshot that knows only the first part
        loose_part = range(cut[1], n)
        want_loose = rng.choice([60, 300, 1010, 1010])  # (more than one IN-batch of 950 for the slow path and for clean_storage)
        if len(loose_part) > want_loose:
            mid = cut[1] + want_loose
            c.add_objects_to_pack(contents[mid:], compress=False)
            loose_part = range(cut[1], mid)
        res['stats']['loose'] = len(loose_part)
        for i in loose_part:
            stale_or_main = stale if rng.random() < 0.3 else c
            stale_or_main.add_object(contents[i])
        for i in range(n):
            table[keys[i]] = contents[i]
        check_views('after filling', c)
        per_pack_clean = rng.random() < 0.5
        c.pack_all_loose(compress=rng.random() < 0.5, clean_loose_per_pack=per_pack_clean)
        if not per_pack_clean and rng.random() < 0.6:
            # packing again while the (now packed) loose files are still there, plus a few new loose objects: every one of the
            # old ones must be recognised as packed already, whatever IN-batch it falls into
            extra = [b'late-%d-%d' % (i, salt) for i in range(3)]
            for b in extra:
                table[c.add_object(b)] = b
            try:
                c.pack_all_loose(compress=rng.random() < 0.5)
            except Exception as exc:  # pylint: disable=broad-except
                fail(['C16', 'C09', 'C02'], 'repack-loose-raised', f'pack_all_loose over {len(loose_part) + 3} loose objects of which {len(loose_part)} are packed already raised '
                                                                   f'{type(exc).__name__}: {str(exc)[:120]}')
            res['stats']['second_pack'] = 1
        c.clean_storage()
        check_views('after pack_all_loose + clean_storage, through a handle opened before', stale, probe_missing=False)
        raw = check_disk('after filling and packing')
        if boundary is not None:
            damage_check('after filling', always=(prop == 'C12'))
        packed_keys = {r[1] for r in raw.rows}
        left = [k for k in raw.loose_bytes if k in packed_keys]
        if left:
            fail(['C16'], 'clean-left', f'clean_storage left {len(left)} loose files whose objects are packed ({len(loose_part)} objects had been packed from loose)')
        unpacked = [k for k in raw.loose_bytes if k not in packed_keys]
        if unpacked:
            fail(['C16'], 'pack-left', f'pack_all_loose left {len(unpacked)} of {len(loose_part)} loose objects unpacked')

        # 2. delete a run of more than 1000 consecutive index ids (and some others) in one call
        ids = sorted((r[0], r[1]) for r in raw.rows)
        run_len = rng.choice([1000, 1040, 2050]) if len(ids) > 2250 else rng.choice([1000, 1001, 1040])
        a = rng.randrange(0, max(1, len(ids) - run_len - 20))  # (some entries survive beyond the gap)
        victims = [hk for _, hk in ids[a:a + run_len]] + rng.sample(keys, 15)
        victims = victims + victims[:3] + [digest(b'never')]
        existed = {k for k in victims if k in table}
        gone = c.delete_objects(victims)
        if set(gone) != existed or len(gone) != len(set(gone)):
            fail(['C11'], 'delete-return', f'delete_objects of {len(victims)} keys returned {len(gone)} keys, {len(existed)} of the requested ones existed')
        for k in existed:
            del table[k]
        check_views('after deleting a run of consecutive entries', c)
        # (a handle opened before a deletion may go on answering from its old snapshot: deletions need exclusive access;
        #  from here on the second handle is one opened - and pinned - after the deletion)
        stale.close()
        stale = dos.Container(folder)
        handles.append(stale)
        stale.has_objects(keys[:3])

        # 3. known content comes back with no_holes: nothing may be written for it
        raw = check_disk('after the deletion')
        pre_packs = sum(len(b) for b in raw.pack_bytes.values())
        survivors = [k for k in keys if k in table]
        again = rng.sample(survivors, min(len(survivors), 40)) + [ids[-1][1]] * (1 if ids[-1][1] in table else 0)
        new = [b'fresh-%d-%d' % (i, salt) for i in range(4)]
        batch = [table[k] for k in again] + new
        rng.shuffle(batch)
        comp = rng.random() < 0.5
        got = c.add_objects_to_pack(batch, compress=comp, no_holes=True, no_holes_read_twice=rng.random() < 0.5)
        if got != [digest(b) for b in batch]:
            fail(['C01', 'C09'], 'keys-again', 're-adding known content returned different keys')
        for b in new:
            table[digest(b)] = b
        raw = check_disk('after re-adding known content with no_holes')
        post_packs = sum(len(b) for b in raw.pack_bytes.values())
        new_rows = [r for r in raw.rows if r[1] in {digest(b) for b in new}]
        if post_packs - pre_packs != sum(r[4] for r in new_rows):
            fail(['C09'], 'noholes-growth', f're-adding {len(again)} known objects (index ids beyond a gap of {run_len} deleted entries) and {len(new)} new ones with '
                                           f'no_holes grew the packs by {post_packs - pre_packs} bytes; the new objects occupy {sum(r[4] for r in new_rows)}')
        if len(raw.rows) != len({r[1] for r in raw.rows}) or len(raw.rows) + len([k for k in raw.loose_bytes if k not in {r[1] for r in raw.rows}]) != len(table):
            fail(['C09', 'C02'], 'count-distinct', f'{len(raw.rows)} index entries and {len(raw.loose_bytes)} loose files for {len(table)} distinct contents')
        check_views('after re-adding', stale, probe_missing=False)

        # 4. full repack: compaction, everything still there
        c.repack(compress_mode=rng.choice([dos.CompressMode.KEEP, dos.CompressMode.YES, dos.CompressMode.NO, dos.CompressMode.AUTO]))
        raw = check_disk('after repack')
        per = {}
        for r in raw.rows:
            per.setdefault(str(r[2]), 0)
            per[str(r[2])] += r[4]
        for name in raw.pack_names_valid():
            if len(raw.pack_bytes[name]) != per.get(name, 0):
                fail(['C11'], 'repack-size', f'after a full repack pack {name} has {len(raw.pack_bytes[name])} bytes, its live objects occupy {per.get(name, 0)}')
        check_views('after repack', c)
        val = c.validate()
        if any(val.values() if isinstance(val, dict) else [not val.is_valid()]):
            fail(['C12'], 'validate', 'validate() reports problems on a container that only went through the API')
        damage_check('at the end')
    except common.Infra as exc:
        res['infra'] = str(exc)
    except Exception as exc:  # pylint: disable=broad-except
        import traceback  # pylint: disable=import-outside-toplevel

        res['failures'].append({'props': ['C02'], 'signature': 'big-raised', 'text': f'large container (case {case_id}): an operation of a fault-free history raised '
                                                                                   f'{type(exc).__name__}: {str(exc)[:200]} | {traceback.format_exc()[-500:]}',
                                'replay': {'kind': 'big', 'case_id': case_id, 'seed': common.seed()}})
    finally:
        for h in handles:
            try:
                h.close()
            except Exception:  # pylint: disable=broad-except
                pass
        common.rmscratch(scratch)
    return res


def failures_for(prop: str, n: int, rep=None):
    """run n large-container cases, keep the failures that contradict `prop`"""
    import multiprocessing as mp  # pylint: disable=import-outside-toplevel

    ctx = mp.get_context('fork')
    with ctx.Pool(processes=min(8, os.cpu_count() or 4, max(1, n))) as pool:
        results = pool.starmap(run_case, [(i, prop) for i in range(n)], chunksize=1)
    out = []
    for r in results:
        if rep is not None and r.get('infra'):
            rep.infra.append(r['infra'])
        for f in r['failures']:
            if prop in f['props']:
                out.append({'signature': f['signature'], 'text': f['text'], 'replay': f['replay']})
                break
    if rep is not None:
        rep.stats['large_container_cases'] = n
        rep.stats['large_container_objects'] = sum(r['stats'].get('n', 0) for r in results)
        rep.evaluations += n
    return out


def replay_big(prop: str, path: str):
    import json  # pylint: disable=import-outside-toplevel

    doc = json.loads(open(path).read())
    rp = doc.get('replay') or {}
    if rp.get('kind') != 'big':
        return None
    os.environ['VERIF_SEED'] = str(rp.get('seed', 0))
    r = run_case(rp['case_id'])
    mine = [f for f in r['failures'] if prop in f['props']]
    for f in mine:
        print('FAIL', f['text'])
    if mine:
        print(f'VIOLATION property={prop} replay={path}')
        return 1
    return 0
