"""Content pools: the harness's own table cid <-> bytes <-> digests <-> zlib stream (stdlib only)."""
from __future__ import annotations

import hashlib
import zlib

CHUNK = 65536


def deflate(data: bytes, level: int, chunk: int = CHUNK) -> bytes:
    """The zlib stream the library must produce: compressobj(level) fed `chunk`-sized pieces, then flush()."""
    co = zlib.compressobj(level=level)
    out = []
    for i in range(0, len(data), chunk):
        out.append(co.compress(data[i:i + chunk]))
    out.append(co.flush())
    return b''.join(out)


def gen_content(rng, kind: str, size: int) -> bytes:
    if size == 0:
        return b''
    if kind == 'random':
        return rng.randbytes(size)
    if kind == 'zeros':
        return bytes(size)
    if kind == 'text':
        words = [b'alpha', b'beta', b'gamma', b'delta', b' ', b'\n', b'0123456789']
        out = bytearray()
        while len(out) < size:
            out += rng.choice(words)
        return bytes(out[:size])
    if kind == 'periodic':
        period = rng.randbytes(rng.randint(1, 17))
        return (period * (size // len(period) + 1))[:size]
    if kind == 'mixed':  # compressible head, incompressible tail
        half = size // 2
        return bytes(half) + rng.randbytes(size - half)
    raise ValueError(kind)


SIZE_PROFILES = {
    # (weight, lo, hi)
    'tiny': [(3, 0, 0), (3, 1, 1), (10, 2, 40), (6, 41, 400)],
    'small': [(2, 0, 0), (2, 1, 1), (8, 2, 60), (6, 61, 1500), (2, 1501, 9000)],
    'chunky': [(1, 0, 0), (1, 1, 1), (4, 2, 2000), (3, 65530, 65542), (2, 131066, 131080), (2, 524280, 524296),
               (1, 200000, 700000)],
}


def pick_size(rng, profile: str) -> int:
    table = SIZE_PROFILES[profile]
    total = sum(w for w, _, _ in table)
    x = rng.uniform(0, total)
    for w, lo, hi in table:
        if x < w:
            return rng.randint(lo, hi)
        x -= w
    return table[-1][1]


class Pool:
    """A finite pool of distinct contents; content ids are indices into it."""

    KINDS = ['random', 'zeros', 'text', 'periodic', 'mixed']

    def __init__(self, rng, n: int, profile: str = 'small', level: int = 1, fixed: list[bytes] | None = None):
        self.level = level
        self.contents: list[bytes] = []
        self.by_bytes: dict[bytes, int] = {}
        self._keys: dict[str, list[str]] = {}
        self._by_key: dict[str, dict[str, int]] = {}
        self._z: dict[tuple[int, int], bytes] = {}
        for b in fixed or []:
            self._add(b)
        guard = 0
        while len(self.contents) < n and guard < 10 * n + 100:
            guard += 1
            b = gen_content(rng, rng.choice(self.KINDS), pick_size(rng, profile))
            self._add(b)

    def _add(self, b: bytes) -> int:
        if b in self.by_bytes:
            return self.by_bytes[b]
        self.by_bytes[b] = len(self.contents)
        self.contents.append(b)
        self._keys.clear()
        self._by_key.clear()
        return len(self.contents) - 1

    def add(self, b: bytes) -> int:
        return self._add(b)

    def __len__(self):
        return len(self.contents)

    def size(self, cid: int) -> int:
        return len(self.contents[cid])

    def key(self, cid: int, hash_type: str) -> str:
        if hash_type not in self._keys:
            self._keys[hash_type] = [hashlib.new(hash_type, b).hexdigest() for b in self.contents]
            self._by_key[hash_type] = {k: i for i, k in enumerate(self._keys[hash_type])}
        return self._keys[hash_type][cid]

    def cid_of_key(self, key: str, hash_type: str):
        self.key(0, hash_type) if self.contents else None
        return self._by_key.get(hash_type, {}).get(key)

    def cid_of_bytes(self, b: bytes):
        return self.by_bytes.get(b)

    def zbytes(self, cid: int, level: int | None = None) -> bytes:
        level = self.level if level is None else level
        if (cid, level) not in self._z:
            self._z[(cid, level)] = deflate(self.contents[cid], level)
        return self._z[(cid, level)]

    def tab_entries(self, start: int = 0, level: int | None = None) -> str:
        return ' '.join(f'{len(self.contents[c])},{len(self.zbytes(c, level))}' for c in range(start, len(self.contents)))

    def describe(self, cid: int) -> dict:
        b = self.contents[cid]
        return {'cid': cid, 'size': len(b), 'zlen': len(self.zbytes(cid)), 'head': b[:12].hex()}
