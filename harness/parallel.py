"""True parallelism for C04 (a sample, not a systematic exploration): separate OS processes - loose writers, readers with
fresh and long-open handles, one packer looping pack_all_loose + clean_storage - run against one container for a few seconds.
The cooperative scheduler of props/C04.py explores interleavings systematically but serialises the actors; this part lets the
kernel, the file system and SQLite's own locking interleave them for real.  Oracle: every key a writer has acknowledged (its
add returned and the key was handed over) is found by every later read, with exactly its bytes; writers get the right key."""
from __future__ import annotations

import hashlib
import multiprocessing as mp
import os
import time

from . import common


def _writer(folder, wid, seed, duration, q, errq):
    try:
        dos = common.import_repo()
        import random  # pylint: disable=import-outside-toplevel

        rng = random.Random(seed)
        c = dos.Container(folder)
        end = time.time() + duration
        n = 0
        mine = []
        while time.time() < end:
            if mine and rng.random() < 0.25:
                data = rng.choice(mine)  # duplicate content
            else:
                data = b'w%d-%d-' % (wid, n) + rng.randbytes(rng.choice([0, 3, 40, 700, 70000]))
                mine.append(data)
            key = c.add_object(data)
            want = hashlib.sha256(data).hexdigest()
            if key != want:
                errq.put(('writer-wrong-key', f'writer {wid}: add_object returned {key[:10]} for content with digest {want[:10]}'))
            q.put((key, len(data), data[:16]))
            n += 1
        c.close()
        q.put(('done', wid, n))
    except Exception as exc:  # pylint: disable=broad-except
        errq.put(('writer-raised', f'writer {wid} raised {type(exc).__name__}: {str(exc)[:200]}'))
        q.put(('done', wid, -1))


def _packer(folder, seed, stop, errq, stats):
    try:
        dos = common.import_repo()
        import random  # pylint: disable=import-outside-toplevel

        rng = random.Random(seed)
        c = dos.Container(folder)
        rounds = 0
        while not stop.is_set():
            c.pack_all_loose(compress=rng.random() < 0.5, clean_loose_per_pack=rng.random() < 0.5)
            c.clean_storage()
            rounds += 1
            time.sleep(rng.choice([0, 0.01, 0.05]))
        c.close()
        stats.put(('packer_rounds', rounds))
    except Exception as exc:  # pylint: disable=broad-except
        errq.put(('packer-raised', f'packer raised {type(exc).__name__}: {str(exc)[:200]}'))


def run_parallel(case_id: int, duration: float = 2.0):
    res = {'failures': [], 'stats': {}, 'infra': None}
    scratch = common.mkscratch('C04p')
    ctx = mp.get_context('fork')
    procs = []
    try:
        dos = common.import_repo()
        import random  # pylint: disable=import-outside-toplevel

        rng = random.Random(common.rng_for('C04', 'parallel', case_id).getrandbits(64))
        folder = os.path.join(scratch, 'c')
        c0 = dos.Container(folder)
        c0.init_container(pack_size_target=rng.choice([4 * 1024 ** 3, 100000, 3000]), loose_prefix_len=rng.choice([0, 2]))
        c0.close()
        q, errq, stats = ctx.Queue(), ctx.Queue(), ctx.Queue()
        stop = ctx.Event()
        nw = rng.choice([1, 2, 3])
        for w in range(nw):
            procs.append(ctx.Process(target=_writer, args=(folder, w, rng.getrandbits(32), duration, q, errq)))
        pk = ctx.Process(target=_packer, args=(folder, rng.getrandbits(32), stop, errq, stats))
        for p in procs + [pk]:
            p.start()
        # the readers live in this process: two handles, one long-open (never closed), one reopened all the time
        long_open = dos.Container(folder)
        acked = {}
        done = 0
        reads = 0
        deadline = time.time() + duration + 20
        while done < nw and time.time() < deadline:
            for _ in range(200):
                try:
                    item = q.get(timeout=0.02 if not acked else 0)
                except Exception:  # pylint: disable=broad-except
                    break
                if item[0] == 'done':
                    done += 1
                else:
                    acked[item[0]] = (item[1], item[2])
            if not acked:
                continue
            keys = rng.sample(sorted(acked), min(len(acked), rng.choice([1, 3, 12])))
            handle = long_open if rng.random() < 0.5 else dos.Container(folder)
            style = rng.choice(['single', 'bulk', 'has', 'meta'])
            try:
                if style == 'single':
                    for k in keys[:3]:
                        data = handle.get_object_content(k)
                        if len(data) != acked[k][0] or data[:16] != acked[k][1] or hashlib.sha256(data).hexdigest() != k:
                            res['failures'].append(('parallel-wrong', f'read of an acknowledged key returned {len(data)} bytes that are not its content'))
                elif style == 'bulk':
                    got = handle.get_objects_content(keys, skip_if_missing=False)
                    for k in keys:
                        data = got.get(k)
                        if data is None:
                            res['failures'].append(('parallel-missing', f'bulk read ({len(keys)} keys) reports an acknowledged key as missing'))
                        elif hashlib.sha256(data).hexdigest() != k:
                            res['failures'].append(('parallel-wrong', 'bulk read returned bytes that are not the content of the key'))
                elif style == 'has':
                    if not all(handle.has_objects(keys)):
                        res['failures'].append(('parallel-missing', f'has_objects ({len(keys)} keys) reports an acknowledged key as absent'))
                else:
                    for k, m in handle.get_objects_meta(keys, skip_if_missing=False):
                        if m['type'].value == 'missing' or m['size'] != acked[k][0]:
                            res['failures'].append(('parallel-meta', f'metadata of an acknowledged key: {m["type"].value}, size {m["size"]} (content has {acked[k][0]} bytes)'))
            except dos.exceptions.NotExistent:
                res['failures'].append(('parallel-missing', f'{style} read of an acknowledged key raised NotExistent'))
            finally:
                if handle is not long_open:
                    handle.close()
            reads += 1
            if len(res['failures']) > 3:
                break
        stop.set()
        pk.join(timeout=30)
        for p in procs:
            p.join(timeout=10)
        long_open.close()
        while not errq.empty():
            sig, text = errq.get()
            if 'database is locked' in text:
                res['stats']['parallel_sqlite_busy'] = res['stats'].get('parallel_sqlite_busy', 0) + 1  # SQLite's own busy timeout on a loaded machine
            else:
                res['failures'].append((sig, text))
        while not stats.empty():
            k, v = stats.get()
            res['stats'][k] = v
        if done < nw:
            res['stats']['parallel_incomplete'] = 1  # a loaded machine: what was observed still counts, nothing is concluded from the rest
        # at the end everything acknowledged is there (fresh handle), and the store validates
        c = dos.Container(folder)
        try:
            missing = [k for k, h in zip(sorted(acked), c.has_objects(sorted(acked))) if not h]
            if missing:
                res['failures'].append(('parallel-lost', f'{len(missing)} of {len(acked)} acknowledged objects are gone at the end'))
            if not c.validate().is_valid():
                res['failures'].append(('parallel-validate', 'validate() is not clean after the parallel run'))
        finally:
            c.close()
        res['stats'].update({'parallel_acked': len(acked), 'parallel_reads': reads, 'parallel_runs': 1})
    except Exception as exc:  # pylint: disable=broad-except
        import traceback  # pylint: disable=import-outside-toplevel

        res['stats']['parallel_harness_error'] = 1
        res['note'] = f'parallel harness: {type(exc).__name__}: {exc} {traceback.format_exc()[-400:]}'
    finally:
        for p in procs:
            if p.is_alive():
                p.kill()
        common.rmscratch(scratch)
    return res
