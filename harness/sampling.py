"""The AUTO heuristic (`estimate_compression`, `should_compress`) against the Lean model of its sampling loop
(lean/Dos/Sample.lean): the reads it issues (offset, length), the position it leaves the stream at, and the verdict
recomputed by the harness from exactly those bytes."""
from __future__ import annotations

import io
import zlib

from . import common
from .content import gen_content


class Recording(io.BytesIO):
    """an in-memory stream that records every read as (offset, length returned)"""

    def __init__(self, data: bytes):
        super().__init__(data)
        self.reads: list = []

    def read(self, *a):  # pylint: disable=arguments-differ
        pos = self.tell()
        out = super().read(*a)
        self.reads.append((pos, len(out)))
        return out


SIZES = [0, 1, 5, 1023, 1024, 1025, 2047, 4096, 100000, 131071, 131072, 131073, 131200, 132096, 200000, 262144, 262145, 1048576, 3000001]


def run_sampling(tier: str, rep, prop: str = 'C10'):
    """adds failures / breaks / stats to `rep`"""
    common.import_repo()
    from disk_objectstore.utils import CompressMode, estimate_compression, should_compress  # pylint: disable=import-outside-toplevel

    rng = common.rng_for(prop, 'sampling')
    sizes = list(SIZES) + [rng.randrange(0, 400000) for _ in range(12 if tier == 'quick' else 120)]
    n = 0
    with common.Driver() as drv:
        for size in sizes:
            kind = rng.choice(['random', 'zeros', 'text', 'mixed'])
            data = gen_content(rng, kind, size)
            start = rng.choice([0, 0, size // 2, size])
            st = Recording(data)
            st.seek(start)
            ratio = estimate_compression(st, size)
            n += 1
            real = ','.join(f'{o}.{ln}' for o, ln in st.reads) or '-'
            model = drv.ask(f'sample {size}')
            if real != model:
                rep.breaks.append({'where': f'reads of estimate_compression on a stream of {size} bytes', 'model': model[:300], 'real': real[:300],
                                   'theorem_or_correspondence': 'Dos.Sample.sampleReads vs estimate_compression', 'case': {'size': size, 'kind': kind}})
            if st.tell() != start:
                rep.failures.append({'signature': 'sampling-position', 'text': f'estimate_compression on a {size}-byte stream positioned at {start} left it at {st.tell()}',
                                     'replay': {'kind': 'sampling', 'size': size, 'seed': common.seed()}})
            if any(o + ln > size or ln > 1024 for o, ln in st.reads) or sum(ln for _, ln in st.reads) > 131072 + 1024:
                rep.failures.append({'signature': 'sampling-unbounded', 'text': f'estimate_compression on {size} bytes read {sum(ln for _, ln in st.reads)} bytes in {len(st.reads)} reads',
                                     'replay': {'kind': 'sampling', 'size': size, 'seed': common.seed()}})
            # the verdict recomputed from exactly the sampled bytes
            sample = b''.join(data[o:o + ln] for o, ln in st.reads)
            want = 1.0 if size == 0 else len(zlib.compress(sample, 1)) / max(1, len(sample))
            if size and abs(ratio - want) > 1e-9:
                rep.breaks.append({'where': f'estimate of {size} bytes of {kind}', 'model': repr(want), 'real': repr(ratio),
                                   'theorem_or_correspondence': 'estimate = zlib level 1 on the sampled bytes', 'case': {'size': size, 'kind': kind}})
            for mode, src_z in ((CompressMode.AUTO, False), (CompressMode.YES, False), (CompressMode.NO, True), (CompressMode.KEEP, True), (CompressMode.KEEP, False)):
                st2 = Recording(data)
                st2.seek(start)
                verdict = should_compress(st2, mode, source_compressed=src_z, source_length=size, source_size=size)
                if st2.tell() != start:
                    rep.failures.append({'signature': 'should-compress-position', 'text': f'should_compress({mode.value}) on a {size}-byte stream positioned at {start} left it at {st2.tell()}',
                                         'replay': {'kind': 'sampling', 'size': size, 'seed': common.seed()}})
                expect = {CompressMode.YES: True, CompressMode.NO: False, CompressMode.KEEP: src_z}.get(mode)
                if expect is not None and verdict != expect:
                    rep.failures.append({'signature': 'should-compress-mode', 'text': f'should_compress({mode.value}, source_compressed={src_z}) = {verdict} for {size} bytes',
                                         'replay': {'kind': 'sampling', 'size': size, 'seed': common.seed()}})
                if mode == CompressMode.AUTO and size and verdict != (want < 0.9):
                    rep.breaks.append({'where': f'AUTO verdict for {size} bytes of {kind}', 'model': str(want < 0.9), 'real': str(verdict),
                                       'theorem_or_correspondence': 'AUTO = (estimate < 0.9)', 'case': {'size': size, 'kind': kind}})
    rep.stats['sampling_streams'] = n
    rep.traces_validated += n
    rep.evaluations += n
