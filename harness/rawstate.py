"""Read a container folder from disk WITHOUT the library: os, sqlite3, zlib, hashlib only.

This is the ground truth the model state is compared with, and it is also the documented
"recover an object with only an SQLite query, a byte slice and zlib" procedure (C03)."""
from __future__ import annotations

import hashlib
import json
import os
import sqlite3
import zlib

HEX = set('0123456789abcdef')


def read_config(folder) -> dict:
    with open(os.path.join(folder, 'config.json'), encoding='utf8') as fh:
        return json.load(fh)


def list_loose(folder, prefix_len: int) -> dict[str, str]:
    """key -> path of every file in loose/ (names that are not hex are reported with key None-prefixed)"""
    out = {}
    base = os.path.join(folder, 'loose')
    for first in sorted(os.listdir(base)):
        p1 = os.path.join(base, first)
        if prefix_len:
            if not os.path.isdir(p1):
                out['?' + first] = p1
                continue
            for second in sorted(os.listdir(p1)):
                out[first + second] = os.path.join(p1, second)
        else:
            out[first] = p1
    return out


def list_packs(folder) -> dict[str, str]:
    base = os.path.join(folder, 'packs')
    return {name: os.path.join(base, name) for name in sorted(os.listdir(base))}


def read_rows(folder) -> list[tuple]:
    """(id, hashkey, pack_id, offset, length, compressed, size) for every committed row"""
    path = os.path.join(folder, 'packs.idx')
    if not os.path.exists(path):
        return []
    try:
        con = sqlite3.connect(f'file:{path}?mode=ro', uri=True, timeout=10)
        rows = con.execute('SELECT id, hashkey, pack_id, offset, length, compressed, size FROM db_object ORDER BY id').fetchall()
    except sqlite3.OperationalError:
        con = sqlite3.connect(path, timeout=10)
        rows = con.execute('SELECT id, hashkey, pack_id, offset, length, compressed, size FROM db_object ORDER BY id').fetchall()
    con.close()
    return [tuple(r) for r in rows]


class Raw:
    """Snapshot of a container folder."""

    def __init__(self, folder, with_bytes: bool = True):
        self.folder = str(folder)
        self.config = read_config(folder)
        self.hash_type = self.config['hash_type']
        self.prefix_len = self.config['loose_prefix_len']
        self.loose_paths = list_loose(folder, self.prefix_len)
        self.pack_paths = list_packs(folder)
        self.rows = read_rows(folder)
        self.loose_bytes: dict[str, bytes] = {}
        self.pack_bytes: dict[str, bytes] = {}
        if with_bytes:
            for k, p in self.loose_paths.items():
                try:
                    with open(p, 'rb') as fh:
                        self.loose_bytes[k] = fh.read()
                except IsADirectoryError:
                    self.loose_bytes[k] = b''
            for n, p in self.pack_paths.items():
                if os.path.isfile(p):
                    with open(p, 'rb') as fh:
                        self.pack_bytes[n] = fh.read()
        self.sandbox = sorted(os.listdir(os.path.join(folder, 'sandbox')))
        self.duplicates = sorted(os.listdir(os.path.join(folder, 'duplicates')))

    def digest(self, data: bytes) -> str:
        return hashlib.new(self.hash_type, data).hexdigest()

    # ---- the documented manual recovery
    def recover(self, key: str):
        """bytes of `key` using only the index row, a slice and zlib; None if no row; raises on corruption"""
        for (_id, hk, pack, off, length, comp, _size) in self.rows:
            if hk == key:
                data = self.pack_bytes[str(pack)][off:off + length]
                if len(data) != length:
                    raise ValueError(f'row of {key} reaches beyond the end of pack {pack}')
                return zlib.decompress(data) if comp else data
        return None

    def pack_names_valid(self) -> list[str]:
        return [n for n in self.pack_paths if n.isdigit() and (n == '0' or not n.startswith('0'))]

    # ---- C03 consistency of what is on disk, stated on the raw data only
    def consistency_problems(self) -> list[str]:
        probs = []
        seen = set()
        per_pack: dict[int, list[tuple]] = {}
        for (rid, hk, pack, off, length, comp, size) in self.rows:
            if hk in seen:
                probs.append(f'key indexed twice: {hk}')
            seen.add(hk)
            per_pack.setdefault(pack, []).append((off, length, hk, comp, size, rid))
            pb = self.pack_bytes.get(str(pack))
            if pb is None:
                probs.append(f'row {hk} names missing pack {pack}')
                continue
            if off < 0 or length < 0 or off + length > len(pb):
                probs.append(f'row {hk} range [{off},{off + length}) outside pack {pack} of {len(pb)} bytes')
                continue
            data = pb[off:off + length]
            try:
                if comp:
                    dobj = zlib.decompressobj()
                    plain = dobj.decompress(data)
                    if not dobj.eof or dobj.unused_data:
                        probs.append(f'row {hk}: stored length {length} is not exactly one zlib stream')
                else:
                    plain = data
            except zlib.error as exc:
                probs.append(f'row {hk}: stored range does not inflate ({exc})')
                continue
            if self.digest(plain) != hk:
                probs.append(f'row {hk}: digest of the stored range differs')
            if len(plain) != size:
                probs.append(f'row {hk}: recorded size {size} but content has {len(plain)} bytes')
            if not comp and length != size:
                probs.append(f'row {hk}: uncompressed but length {length} != size {size}')
        for pack, items in per_pack.items():
            items.sort()
            pos = 0
            for off, length, hk, *_ in items:
                if off < pos:
                    probs.append(f'row {hk} overlaps its predecessor in pack {pack}')
                pos = max(pos, off + length)
        for k, data in self.loose_bytes.items():
            if self.digest(data) != k:
                probs.append(f'loose file {k} does not hold the bytes it is named after')
        return probs
