"""In-process interposition of the I/O-relevant calls of the library (no source change):
builtins.open (write- and read-mode file objects are wrapped), os.rename/replace/remove/unlink/link/mkdir/open/close/
fsync, fcntl.fcntl, and SQLAlchemy engine events.  Every event is reported to a hook BEFORE the call is executed, so
the hook can record it, kill the process (crash), raise (fault) or hand control to a scheduler (interleavings)."""
from __future__ import annotations

import builtins
import json
import os

_REAL = {}


class FileProxy:
    """a file object whose write/flush/seek/truncate/close go through the tracer"""

    def __init__(self, f, path, tracer, mode):
        object.__setattr__(self, '_f', f)
        object.__setattr__(self, '_path', path)
        object.__setattr__(self, '_tracer', tracer)
        object.__setattr__(self, '_mode', mode)
        object.__setattr__(self, '_w', any(c in mode for c in 'wax+'))

    def write(self, data):
        self._tracer.emit(('write', self._path, len(data)))
        return self._f.write(data)

    def flush(self):
        if self._w:
            self._tracer.emit(('flush', self._path))
        return self._f.flush()

    def seek(self, *a):
        if self._w:
            self._tracer.emit(('seek', self._path, a[0] if a else 0))
        return self._f.seek(*a)

    def truncate(self, *a):
        self._tracer.emit(('truncate', self._path))
        return self._f.truncate(*a)

    def read(self, *a):
        data = self._f.read(*a)
        self._tracer.note_read(self._path, len(data), a[0] if a else -1)
        return data

    def close(self):
        if not self._f.closed:
            self._tracer.emit(('close', self._path, 'w' if self._w else 'r'))
        return self._f.close()

    def __enter__(self):
        return self

    def __exit__(self, *exc):
        self.close()
        return False

    def __iter__(self):
        return iter(self._f)

    def __getattr__(self, name):
        return getattr(self._f, name)


class Tracer:
    def __init__(self, root: str, hook=None, log_fd=None):
        self.root = os.path.realpath(root)
        self.hook = hook
        self.events: list = []
        self.reads: list = []  # (path, returned, requested) for chunk accounting (C18)
        self.log_fd = log_fd
        self.fd_paths: dict = {}
        self.installed = False
        self.synced: dict = {}  # inode -> size durable on disk (recorded after each fsync)
        self.max_open = 0
        self.open_now: dict = {}
        self.trace_select = False
        self.trace_stat = False

    # ------------------------------------------------------------------ helpers
    def rel(self, path) -> str | None:
        try:
            p = os.path.abspath(os.fspath(path))
            if isinstance(p, bytes):
                p = p.decode()
        except TypeError:
            return None
        if p == self.root:
            return '.'
        if p.startswith(self.root + os.sep):
            return p[len(self.root) + 1:]
        return None

    def emit(self, ev):
        idx = len(self.events)
        self.events.append(ev)
        if self.log_fd is not None:
            os.write(self.log_fd, (json.dumps(['ev', idx] + list(ev)) + '\n').encode())
        if self.hook is not None:
            self.hook(idx, ev)

    def note_read(self, path, returned, requested):
        self.reads.append((path, returned, requested))

    def note_sync(self, fd):
        try:
            st = os.fstat(fd)
        except OSError:
            return
        self.synced[st.st_ino] = st.st_size
        if self.log_fd is not None:
            os.write(self.log_fd, (json.dumps(['sync', st.st_ino, st.st_size]) + '\n').encode())

    # ------------------------------------------------------------------ install / uninstall
    def install(self):
        import fcntl  # pylint: disable=import-outside-toplevel

        t = self
        real_open = builtins.open
        _REAL.update(open=real_open, rename=os.rename, replace=os.replace, remove=os.remove, unlink=os.unlink, link=os.link,
                     mkdir=os.mkdir, osopen=os.open, osclose=os.close, fsync=os.fsync, fcntl=fcntl.fcntl, stat=os.stat)

        def t_open(file, mode='r', *a, **k):
            rel = t.rel(file) if isinstance(file, (str, bytes, os.PathLike)) else None
            if rel is None or rel.startswith('packs.idx'):
                return real_open(file, mode, *a, **k)
            t.emit(('open', rel, mode))
            f = real_open(file, mode, *a, **k)
            t.open_now[id(f)] = rel
            t.max_open = max(t.max_open, len(t.open_now))
            proxy = FileProxy(f, rel, t, mode)
            return proxy

        def wrap2(name, real):
            def fn(src, dst, *a, **k):
                rs, rd = t.rel(src), t.rel(dst)
                if rs is not None or rd is not None:
                    t.emit((name, rs, rd))
                return real(src, dst, *a, **k)
            return fn

        def wrap1(name, real):
            def fn(path, *a, **k):
                r = t.rel(path)
                # removing a file that is not there is an expected no-op attempt (FileNotFoundError is caught by the caller)
                if r is not None and (name != 'remove' or os.path.lexists(path)):
                    t.emit((name, r))
                return real(path, *a, **k)
            return fn

        def t_osopen(path, flags, *a, **k):
            r = t.rel(path)
            if r is not None and not r.startswith('packs.idx'):
                t.emit(('osopen', r))
            fd = _REAL['osopen'](path, flags, *a, **k)
            if r is not None:
                t.fd_paths[fd] = r
            return fd

        def t_osclose(fd):
            r = t.fd_paths.pop(fd, None)
            if r is not None and not r.startswith('packs.idx'):
                t.emit(('osclose', r))
            return _REAL['osclose'](fd)

        def fd_rel(fd):
            if fd in t.fd_paths:
                return t.fd_paths[fd]
            try:
                return t.rel(os.readlink(f'/proc/self/fd/{fd}'))
            except OSError:
                return None

        def t_fsync(fd):
            r = fd_rel(fd)
            if r is not None and not r.startswith('packs.idx'):
                t.emit(('fsync', r))
            res = _REAL['fsync'](fd)
            if r is not None:
                t.note_sync(fd)
            return res

        def t_fcntl(fd, cmd, *a):
            r = fd_rel(fd) if isinstance(fd, int) else None
            if r is not None:
                t.emit(('fcntl', r, cmd))
            return _REAL['fcntl'](fd, cmd, *a)

        def t_stat(path, *a, **k):
            if t.trace_stat and isinstance(path, (str, bytes, os.PathLike)):
                r = t.rel(path)
                if r is not None and r.startswith('loose' + os.sep) and r.count(os.sep) >= 1:
                    t.emit(('stat', r))
            return _REAL['stat'](path, *a, **k)

        builtins.open = t_open
        os.stat = t_stat
        os.rename = wrap2('rename', _REAL['rename'])
        os.replace = wrap2('replace', _REAL['replace'])
        os.link = wrap2('link', _REAL['link'])
        os.remove = wrap1('remove', _REAL['remove'])
        os.unlink = wrap1('remove', _REAL['unlink'])
        os.mkdir = wrap1('mkdir', _REAL['mkdir'])
        os.open = t_osopen
        os.close = t_osclose
        os.fsync = t_fsync
        fcntl.fcntl = t_fcntl

        from sqlalchemy import event  # pylint: disable=import-outside-toplevel
        from sqlalchemy.engine import Engine  # pylint: disable=import-outside-toplevel

        def mine(conn):
            try:
                db = conn.engine.url.database
            except Exception:  # pylint: disable=broad-except
                return False
            return db is not None and t.rel(db) is not None

        def before_exec(conn, cursor, statement, parameters, context, executemany):
            if not mine(conn):
                return
            st = statement.strip().split(None, 1)[0].upper() if statement.strip() else ''
            if st in ('INSERT', 'UPDATE', 'DELETE'):
                n = len(parameters) if executemany else 1
                t.emit(('sql', st, n, statement[:80], _params(parameters, executemany)))
            elif st == 'SELECT' and t.trace_select:
                t.emit(('select', statement[:70]))
            elif st == 'COMMIT':
                t.emit(('commit',))
            elif st == 'VACUUM':
                t.emit(('vacuum',))

        def on_commit(conn):
            if mine(conn):
                t.emit(('commit',))

        def on_rollback(conn):
            if mine(conn):
                t.emit(('rollback',))

        self._listeners = [(Engine, 'before_cursor_execute', before_exec), (Engine, 'commit', on_commit), (Engine, 'rollback', on_rollback)]
        for tgt, name, fn in self._listeners:
            event.listen(tgt, name, fn)
        self.installed = True
        return self

    def uninstall(self):
        if not self.installed:
            return
        import fcntl  # pylint: disable=import-outside-toplevel

        builtins.open = _REAL['open']
        os.rename, os.replace, os.remove, os.unlink, os.link, os.mkdir = (_REAL['rename'], _REAL['replace'], _REAL['remove'],
                                                                          _REAL['unlink'], _REAL['link'], _REAL['mkdir'])
        os.open, os.close, os.fsync = _REAL['osopen'], _REAL['osclose'], _REAL['fsync']
        os.stat = _REAL['stat']
        fcntl.fcntl = _REAL['fcntl']
        from sqlalchemy import event  # pylint: disable=import-outside-toplevel

        for tgt, name, fn in self._listeners:
            try:
                event.remove(tgt, name, fn)
            except Exception:  # pylint: disable=broad-except
                pass
        self.installed = False

    def __enter__(self):
        return self.install()

    def __exit__(self, *exc):
        self.uninstall()
        return False


def _params(parameters, executemany):
    """hash keys mentioned by a write statement (for DELETE ... IN and INSERT rows)"""
    out = []
    try:
        rows = parameters if executemany else [parameters]
        for p in rows:
            vals = p.values() if isinstance(p, dict) else p
            for v in vals:
                if isinstance(v, str) and len(v) >= 40 and all(c in '0123456789abcdef' for c in v):
                    out.append(v)
    except Exception:  # pylint: disable=broad-except
        pass
    return out[:2000]


# ---------------------------------------------------------------------- canonical form

TMP = 4294967295


def _packid(name: str):
    if name.endswith('.lock'):
        name = name[:-5]
    if name == '-1':
        return TMP
    try:
        return int(name)
    except ValueError:
        return None


def canon(events, cid_of_key, existing_row_keys=frozenset()):
    """raw events -> (tokens, owner) where tokens use the vocabulary of Dos.StoreDriver.showAct (coalesced) and
    owner[i] = index of the token raw event i belongs to (None if the event is not modelled)"""
    toks: list[str] = []
    owner: list = []
    last_kind = None
    seek_pending: set = set()
    dirty = False  # a write statement since the last commit

    def push(tok, coalesce=False):
        nonlocal last_kind
        if coalesce and toks and toks[-1] == tok and last_kind == tok:
            return len(toks) - 1
        toks.append(tok)
        last_kind = tok
        return len(toks) - 1

    for ev in events:
        kind = ev[0]
        tok_i = None
        path = ev[1] if len(ev) > 1 and isinstance(ev[1], str) else None
        parts = path.split('/') if path else []
        area = parts[0] if parts else None
        if kind == 'open':
            mode = ev[2]
            if area == 'sandbox' and 'w' in mode:
                tok_i = push('sbCreate')
            elif area == 'loose' and 'r' in mode and not any(c in mode for c in 'wa+'):
                tok_i = push(f'readLoose:{cid_of_key("".join(parts[1:]))}')
            elif area == 'packs' and parts[-1].endswith('.lock'):
                tok_i = push(f'lock:{_packid(parts[-1])}')
            elif area == 'packs' and 'a' in mode:
                tok_i = push(f'pkOpen:{_packid(parts[-1])}')
            elif area == 'packs' and 'r' in mode:
                tok_i = push(f'pkRead:{_packid(parts[-1])}')
        elif kind == 'write':
            if area == 'sandbox':
                tok_i = push('sbWrite', coalesce=True)
            elif area == 'packs':
                tok_i = push(f'pkWrite:{_packid(parts[-1])}', coalesce=True)
        elif kind == 'flush':
            if area == 'sandbox':
                tok_i = push('sbFlush')
            elif area == 'packs' and not parts[-1].endswith('.lock'):
                tok_i = push(f'pkFlush:{_packid(parts[-1])}')
        elif kind == 'seek':
            if area == 'packs':
                seek_pending.add(path)
        elif kind == 'truncate':
            if area == 'packs':
                tok_i = push(f'pkTruncate:{_packid(parts[-1])}:{1 if path in seek_pending else 0}')
                seek_pending.discard(path)
        elif kind == 'close':
            if area == 'sandbox':
                tok_i = push('sbClose')
            elif area == 'packs' and ev[2] == 'w' and not parts[-1].endswith('.lock'):
                tok_i = push(f'pkClose:{_packid(parts[-1])}')
        elif kind == 'fsync':
            if area == 'sandbox' and len(parts) > 1:
                tok_i = push('sbFsync')
            elif area == 'packs' and len(parts) > 1:
                tok_i = push(f'pkFsync:{_packid(parts[-1])}')
            else:
                tok_i = push('dirSync')
        elif kind == 'fcntl':
            tok_i = push(f'fcntl:{path}:{ev[2]}')
        elif kind in ('rename', 'replace'):
            dst = ev[2] or ''
            dparts = dst.split('/')
            if dparts[0] == 'loose':
                tok_i = push(f'renameLoose:{cid_of_key("".join(dparts[1:]))}')
            elif dparts[0] == 'duplicates':
                tok_i = push('storeDuplicate')
            else:
                tok_i = push(f'{kind}:{ev[1]}:{dst}')
        elif kind == 'remove':
            if area == 'sandbox':
                tok_i = push('sbRemove')
            elif area == 'loose':
                tok_i = push(f'looseUnlink:{cid_of_key("".join(parts[1:]))}')
            elif area == 'packs' and parts[-1].endswith('.lock'):
                tok_i = push(f'unlock:{_packid(parts[-1])}')
            elif area == 'packs':
                tok_i = push(f'pkUnlink:{_packid(parts[-1])}')
            elif area == 'duplicates':
                tok_i = push('dupRemove')
        elif kind == 'link':
            tok_i = push(f'pkLink:{_packid((ev[1] or "").split("/")[-1])}:{_packid((ev[2] or "").split("/")[-1])}')
        elif kind == 'mkdir':
            if area == 'loose':
                tok_i = push('mkdirLoose')
        elif kind == 'sql':
            verb = ev[1]
            stmt = ev[3]
            if verb == 'INSERT':
                dirty = True
                tok_i = push('sqlInsert*', coalesce=True)
            elif verb == 'DELETE':
                if any(k in existing_row_keys for k in ev[4]):
                    dirty = True
                    tok_i = push('sqlDelete*', coalesce=True)
            elif verb == 'UPDATE':
                dirty = True
                if 'WHERE db_object.pack_id' in stmt or 'SET pack_id=? WHERE' in stmt and 'db_object.id' not in stmt:
                    tok_i = push('sqlRepoint')
                else:
                    tok_i = push('sqlMove*', coalesce=True)
        elif kind == 'commit':
            if dirty:
                tok_i = push('sqlCommit')
                dirty = False
        owner.append(tok_i)
    return toks, owner


def canon_model(acts: str, lengths: list[int], sb_size: int | None = None):
    """the model's action list in the same coalesced vocabulary; pkWrite of zero stored length and sbWrite of an empty
    content have no counterpart in the real trace (no write() call is made)"""
    out = []
    li = 0
    dirty = False
    idx_map = []  # for each model action: index of the token it maps to (or None)
    for a in (acts.split(' ') if acts != '-' else []):
        tok = a
        coalesce = False
        if a.startswith('pkWrite:'):
            tok = ':'.join(a.split(':')[:2])
            ln = lengths[li] if li < len(lengths) else 1
            li += 1
            if ln == 0:
                idx_map.append(None)
                continue
            coalesce = True
        elif a == 'sbWrite':
            if sb_size == 0:
                idx_map.append(None)
                continue
        elif a.startswith('sqlInsert:'):
            tok, coalesce, dirty = 'sqlInsert*', True, True
        elif a.startswith('sqlDelete:'):
            tok, coalesce, dirty = 'sqlDelete*', True, True
        elif a.startswith('sqlMove:'):
            tok, coalesce, dirty = 'sqlMove*', True, True
        elif a.startswith('sqlRepoint:'):
            tok, dirty = 'sqlRepoint', True
        elif a == 'sqlCommit':
            if not dirty:
                idx_map.append(None)
                continue
            dirty = False
        elif a.startswith('mkdirLoose'):
            tok = 'mkdirLoose'
        if coalesce and out and out[-1] == tok:
            idx_map.append(len(out) - 1)
            continue
        out.append(tok)
        idx_map.append(len(out) - 1)
    return out, idx_map
