"""Checks built on operation histories (harness/store.py): case construction, parallel execution,
projection of the results onto one property, shrinking."""
from __future__ import annotations

import hashlib
import json
import multiprocessing as mp
import os
import time
import traceback

from . import common, gen, store
from .content import Pool
from .store import CaseResult  # noqa: F401  (re-exported)

# ---------------------------------------------------------------- profiles

PROFILES = {
    # name: dict(pool size, size profile, ops per case, weights, second container prob, extras)
    'general': dict(pool=11, sizes='small', nops=(8, 30), weights=None, two=0.45, thresholds=0.25),
    'roundtrip': dict(pool=9, sizes='small', nops=(6, 14), two=0.0, thresholds=0.35,
                      weights={'addLoose': 30, 'addPacked': 30, 'packAll': 12, 'reopen': 3, 'loosen': 4, 'clean': 3}),
    'roundtrip_big': dict(pool=6, sizes='chunky', nops=(4, 9), two=0.0,
                          weights={'addLoose': 30, 'addPacked': 30, 'packAll': 12, 'reopen': 3, 'loosen': 6, 'repack': 5}),
    'dedup': dict(pool=6, sizes='tiny', nops=(10, 30), two=0.3, reuse=0.7,
                  weights={'damageReadd': 8, 'addLoose': 25, 'addPacked': 35, 'packAll': 10, 'clean': 5, 'import': 8, 'reopen': 2, 'loosen': 3}),
    'compress': dict(pool=9, sizes='small', nops=(8, 24), two=0.0, thresholds=0.25,
                     weights={'addLoose': 20, 'addPacked': 14, 'packAll': 16, 'repack': 22, 'clean': 5, 'loosen': 3, 'delete': 3}),
    'compress_big': dict(pool=6, sizes='chunky', nops=(5, 10), two=0.0,
                         weights={'addLoose': 20, 'addPacked': 14, 'packAll': 16, 'repack': 22, 'clean': 5}),
    'delete': dict(pool=10, sizes='small', nops=(8, 26), two=0.0, thresholds=0.5,
                   weights={'addLoose': 20, 'addPacked': 18, 'packAll': 12, 'delete': 20, 'repack': 10, 'repackOne': 6, 'clean': 5, 'loosen': 4, 'reopen': 2, 'plantDup': 7}),
    'appendonly': dict(pool=10, sizes='small', nops=(10, 30), two=0.4, small_target=0.85,
                       weights={'addLoose': 24, 'addPacked': 24, 'packAll': 14, 'clean': 7, 'import': 10, 'reopen': 8, 'loosen': 3}),
    'import': dict(pool=10, sizes='small', nops=(8, 22), two=1.0, thresholds=0.3,
                   weights={'addLoose': 18, 'addPacked': 14, 'packAll': 8, 'import': 24, 'importMany': 10, 'delete': 4, 'clean': 4, 'repack': 3, 'reopen': 2}),
    'bulk': dict(pool=14, sizes='tiny', nops=(8, 22), two=0.3, thresholds=True,
                 weights={'addLoose': 26, 'addPacked': 20, 'packAll': 14, 'clean': 10, 'delete': 8, 'import': 8, 'repack': 3, 'loosen': 3}),
}

RUNNER_FLAGS: dict = {}

LAYERS = {
    'C01': ({'outcome', 'views.get', 'views.metabasic'}, {'addLoose', 'addPacked', 'packAll', 'repack', 'repackOne', 'loosen', 'reopen', 'clean'}),
    'C02': ({'outcome', 'views.has', 'views.get', 'views.metabasic', 'views.list', 'views.countobj'}, None),
    'C03': ({'state.rows', 'state.packs', 'state.loose'}, None),
    'C09': ({'state.rowkeys', 'state.packs', 'state.loose', 'views.count', 'outcome'},
            {'damage', 'addLoose', 'addPacked', 'packAll', 'import', 'clean', 'loosen', 'reopen'}),
    'C10': ({'verdict', 'views.meta', 'views.totals', 'state.rows', 'views.get'}, {'packAll', 'repack', 'repackOne', 'addPacked', 'addLoose', 'import'}),
    'C11': ({'outcome', 'views.has', 'views.get', 'views.list', 'state.packs', 'state.rows'}, {'delete', 'repack', 'repackOne'}),
    'C12': ({'views.validate'}, None),
    'C13': ({'state.packs', 'state.stray'}, {'addLoose', 'addPacked', 'packAll', 'clean', 'import', 'reopen', 'loosen'}),
    'C14': ({'outcome', 'calls', 'state.rows', 'state.packs', 'state.loose', 'views.get', 'views.has'}, {'import'}),
    'C18': ({'trace'}, None),
    'C16': ({'outcome', 'views.has', 'views.get', 'views.metabasic', 'views.list', 'views.countobj', 'state.loose', 'state.rows'}, None),
}


def build_case(prop: str, profile: str, case_id: int):
    """deterministic construction of pool + configurations of a case"""
    pr = PROFILES[profile]
    rng = common.rng_for(prop, profile, 'setup', case_id)
    cfg_a = store.default_cfg(rng, pr.get('small_target', 0.6))
    pool = Pool(rng, pr['pool'], pr['sizes'], level=cfg_a.level, fixed=[b''] if rng.random() < 0.7 else None)
    cfgs = {'a': cfg_a}
    if rng.random() < pr.get('two', 0):
        cfgs['b'] = store.default_cfg(rng, pr.get('small_target', 0.6))
    th = pr.get('thresholds')
    if th is True or (th and rng.random() < th):
        # the library's batch sizes (IN-lists, switch to a full scan) lowered so that small requests cross them
        for c in cfgs.values():
            c.in_sql_max = rng.choice([1, 2, 3, 5])
            c.max_chunk_iter = rng.choice([0, 2, 4, 7, 12])
    return pool, cfgs, pr


def run_case(prop: str, profile: str, case_id: int, ops: list | None = None) -> store.CaseResult:
    """one case: either generated adaptively (ops=None) or an explicit operation list (replay / shrinking)"""
    pool, cfgs, pr = build_case(prop, profile, case_id)
    res = store.CaseResult(case={'prop': prop, 'profile': profile, 'case_id': case_id, 'seed': common.seed(),
                                 'cfgs': {k: v.as_dict() for k, v in cfgs.items()},
                                 'pool': [pool.describe(c) for c in range(len(pool))]})
    scratch = common.mkscratch(prop)
    drv = None
    runner = None
    try:
        drv = common.Driver()
        runner = store.Runner(drv, pool, cfgs, scratch, res)
        runner.numbering = (prop == 'C13')
        # a third of the histories leave the handle alone between operations: the views (which go through the handle and
        # refresh its sessions and caches) are not asked, only what is on disk is compared after every step
        if runner.check_views and common.rng_for(prop, profile, 'quiet', case_id).random() < 0.33:
            runner.check_views = False
            res.bump('quiet_handle_cases')
        if ops is None:
            rng = common.rng_for(prop, profile, 'ops', case_id)
            n = rng.randint(*pr['nops'])
            for _ in range(n):
                op = gen.next_op(rng, runner, weights=pr.get('weights'), reuse=pr.get('reuse', 0.35))
                for one in (op if isinstance(op, list) else [op]):
                    runner.apply(one)
                if any(d[1] == 'outcome' and 'inadmissible' in str(d[2]) for d in res.diffs):
                    break  # the model lost track; later steps carry no information
                if len(res.diffs) + len(res.failures) > 12:
                    break
        else:
            for op in ops:
                op = {k: v for k, v in op.items() if k not in ('model_line', 'real_out')}
                runner.apply(op)
    except common.Infra:
        raise
    except Exception as exc:  # pylint: disable=broad-except
        res.error = f'{type(exc).__name__}: {exc}\n{traceback.format_exc()[-1500:]}'
    finally:
        if runner is not None:
            runner.close()
        if drv is not None:
            drv.close()
        common.rmscratch(scratch)
    return res


def _worker(args):
    prop, profile, case_id = args
    try:
        return run_case(prop, profile, case_id)
    except common.Infra as exc:
        r = store.CaseResult(case={'prop': prop, 'profile': profile, 'case_id': case_id})
        r.error = f'INFRA: {exc}'
        return r


def relevant(prop: str, res: store.CaseResult):
    layers, ops = LAYERS[prop]
    # Only the step at which model and implementation FIRST disagree (in any layer) is informative: everything
    # after it is a knock-on effect of that divergence and says nothing about this property.
    first = min((d[0] for d in res.diffs), default=None)
    diffs = [d for d in res.diffs if d[0] == first and d[1] in layers and (ops is None or d[4] in ops)]
    fails = [f for f in res.failures if f[1] == prop]
    return diffs, fails


def shrink(prop: str, res: store.CaseResult, pred) -> list:
    """greedy shrinking of the recorded operation list while `pred(result)` stays true"""
    ops = [{k: v for k, v in op.items() if k not in ('model_line', 'real_out')} for op in res.trace]
    profile, case_id = res.case['profile'], res.case['case_id']
    budget = 60
    i = len(ops) - 2  # the last op is the one that exposed the problem
    while i >= 0 and budget > 0:
        cand = ops[:i] + ops[i + 1:]
        budget -= 1
        try:
            r = run_case(prop, profile, case_id, ops=cand)
            if r.error is None and pred(r):
                ops = cand
        except Exception:  # pylint: disable=broad-except
            pass
        i -= 1
    return ops


def run_many(prop: str, profile_counts: list[tuple[str, int]], procs: int | None = None):
    """run `count` cases of every profile; returns the list of CaseResult"""
    jobs = []
    for profile, count in profile_counts:
        jobs += [(prop, profile, i) for i in range(count)]
    procs = procs or min(14, os.cpu_count() or 4)
    if procs <= 1 or len(jobs) <= 2:
        return [_worker(j) for j in jobs]
    ctx = mp.get_context('fork')
    with ctx.Pool(processes=procs) as pool:
        return pool.map(_worker, jobs, chunksize=1)


def trace_digest(res: store.CaseResult) -> str:
    h = hashlib.sha256()
    for op in res.trace:
        h.update(json.dumps({k: v for k, v in op.items() if k != 'real_out'}, sort_keys=True, default=str).encode())
    return h.hexdigest()[:16]
